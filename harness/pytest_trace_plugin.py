"""pytest plugin (loaded with -p harness.pytest_trace_plugin): collects the teardown events that asphalt emits when
ASPHALT_VERIF_HOOKS=trace, per test, and writes them to $VERIF_TRACE_OUT as JSON."""
import json
import os

import pytest

_by_test = []
_mark = {}


def _trace():
    from asphalt.core import _verif
    return _verif.TRACE


@pytest.hookimpl(tryfirst=True)
def pytest_runtest_setup(item):
    from asphalt.core import _verif
    if hasattr(_verif, "reset"):
        _verif.reset()   # contexts and types are numbered per test
    _mark[item.nodeid] = len(_trace())


@pytest.hookimpl(trylast=True)
def pytest_runtest_teardown(item, nextitem):
    start = _mark.pop(item.nodeid, None)
    if start is not None:
        ev = _trace()[start:]
        if ev:
            _by_test.append({"test": item.nodeid, "events": ev})


def pytest_sessionfinish(session, exitstatus):
    out = os.environ.get("VERIF_TRACE_OUT")
    if out:
        with open(out, "w") as f:
            json.dump(_by_test, f)
