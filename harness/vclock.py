"""Virtual time + exact quiescence on both anyio backends (DESIGN §3.3, Appendix B)."""
from __future__ import annotations

import asyncio
import random

import anyio
import sniffio
import trio
import trio.testing
import trio._core._run as _trio_run


class VLoop(asyncio.SelectorEventLoop):
    """asyncio loop whose clock is virtual: it jumps to the next timer when nothing is runnable.

    Controllers waiting for quiescence are completed exactly when the ready queue is empty, before time may jump.
    With shuffle_seed set, the ready queue is shuffled (schedule fuzzing at checkpoint granularity)."""

    shuffle_seed: int | None = None

    def __init__(self) -> None:
        super().__init__()
        self._vt = 0.0
        self._idle_waiters: list[asyncio.Future] = []
        self._rng = random.Random(self.shuffle_seed) if self.shuffle_seed is not None else None

    def time(self) -> float:
        return self._vt

    def _run_once(self) -> None:
        if not self._ready:
            if self._idle_waiters:
                ws, self._idle_waiters = self._idle_waiters, []
                for f in ws:
                    if not f.done():
                        f.set_result(None)
            elif self._scheduled:
                when = self._scheduled[0]._when
                if when > self._vt:
                    self._vt = when
        elif self._rng is not None and len(self._ready) > 1:
            items = list(self._ready)
            self._rng.shuffle(items)
            self._ready.clear()
            self._ready.extend(items)
        super()._run_once()


def make_loop_factory(shuffle_seed: int | None):
    if shuffle_seed is None:
        return VLoop

    def factory():
        VLoop.shuffle_seed = shuffle_seed
        try:
            return VLoop()
        finally:
            VLoop.shuffle_seed = None

    return factory


async def quiescent() -> None:
    """Return when no task can make progress without outside input or the passage of (virtual) time."""
    if sniffio.current_async_library() == "asyncio":
        loop = asyncio.get_running_loop()
        fut = loop.create_future()
        loop._idle_waiters.append(fut)  # type: ignore[attr-defined]
        await fut
    else:
        await trio.testing.wait_all_tasks_blocked()


def backend_options(backend: str, seed: int | None = None, shuffle: bool = False) -> dict:
    if backend == "asyncio":
        return {"loop_factory": make_loop_factory(seed if shuffle else None)}
    _trio_run._ALLOW_DETERMINISTIC_SCHEDULING = True
    _trio_run._r.seed(seed if seed is not None else 0)
    return {"clock": trio.testing.MockClock(autojump_threshold=0)}


class HarnessHang(BaseException):
    """Raised in the main thread when one execution has not finished after HANG_LIMIT seconds of REAL time: under virtual time an
    execution takes milliseconds, so the code under test has stopped making progress (everything waits for something that never
    comes). The drivers record it like any other crash of the scenario; the rest of the trace is still judged."""


HANG_LIMIT = 90.0


def _on_hang_signal(signum, frame):
    raise HarnessHang(f"no progress after {HANG_LIMIT:.0f} s of real time")


def run(main, *args, backend: str = "asyncio", seed: int | None = None, shuffle: bool = False, watchdog: bool = False):
    """anyio.run under virtual time. trio: seeded batch shuffling always; asyncio: FIFO unless shuffle.
    watchdog=True (drivers that execute ONE small scenario per run): a thread interrupts an execution that hangs (SIGUSR1 to the
    main thread, repeated until the run is over)."""
    import signal
    import threading
    if not watchdog or threading.current_thread() is not threading.main_thread():
        return anyio.run(main, *args, backend=backend, backend_options=backend_options(backend, seed, shuffle))
    done = threading.Event()
    main_ident = threading.get_ident()

    def watchdog():
        while not done.wait(HANG_LIMIT):
            try:
                signal.pthread_kill(main_ident, signal.SIGUSR1)
            except Exception:  # noqa: BLE001
                return
    old = signal.signal(signal.SIGUSR1, _on_hang_signal)
    t = threading.Thread(target=watchdog, daemon=True)
    t.start()
    try:
        return anyio.run(main, *args, backend=backend, backend_options=backend_options(backend, seed, shuffle))
    finally:
        done.set()
        signal.signal(signal.SIGUSR1, old)


BACKENDS = ("asyncio", "trio")
