"""The Plugins.tla family (route A): TLC enumerates sequences of resolve / create_object calls over a fixed world of importable
objects, the real PluginContainer executes them, TLC compares every recorded result with the operators."""
import sys

from . import core, tlc

sys.path.insert(0, str(core.VERIF / "harness" / "fixtures"))


def _to_arg(x, fx):
    if x["k"] == "obj":
        return fx.OBJECTS[x["id"]]
    if x["k"] == "plain":
        return x["s"]
    return x["mod"] + ":" + ".".join(x["path"])


def _result(fn, fx):
    names = {id(v): k for k, v in fx.OBJECTS.items() if not isinstance(v, int)}
    try:
        v = fn()
    except Exception as e:  # noqa: BLE001
        return {"r": "err", "e": type(e).__name__}
    if isinstance(v, str):
        return {"r": "same"}
    if isinstance(v, (fx.Base, fx.Other)):
        return {"r": "inst", "v": names.get(id(type(v)), type(v).__name__), "kwargs": getattr(v, "kwargs", None) == {"a": 1}}
    if v == 42 and not isinstance(v, bool):
        return {"r": "obj", "v": "deep"}
    if v == 7 and not isinstance(v, bool):
        return {"r": "obj", "v": "VALUE"}
    return {"r": "obj", "v": names.get(id(v), repr(v)[:40])}


def execute(case):
    import verif_plug_fixture as fx
    from asphalt.core import PluginContainer
    container = PluginContainer("verif.plugins", fx.Base)
    obs = []
    for op in case["prog"]:
        if op == [] or op == {}:
            obs.append([])
            continue
        arg = _to_arg(op["x"], fx)
        if op["op"] == "resolve":
            obs.append(_result(lambda: container.resolve(arg), fx))
        else:
            obs.append(_result(lambda: container.create_object(arg, a=1), fx))
    return {"id": case["id"], "prog": case["prog"], "obs": obs, "names": list(container.names)}


def add_to(rep: core.Report, prop: str):
    res = tlc.run("MC_Plugins", workers=4, heap="4g", timeout=900, check=False)
    if res.error or res.invariant_violated:
        raise core.MachineryError(f"Plugins.tla: {res.invariant_violated or res.error}\n{res.out[-1200:]}")
    rep.add_tlc(res, "MC_Plugins: equivalence of entry-point name / module:attr reference / object and subclass-only instantiation on the specification; "
                     "every sequence of <= 2 resolve/create_object calls over 22 references exported")
    progs = [p for p in res.printed() if isinstance(p, dict) and "prog" in p]
    if len(progs) < 1000:
        raise core.MachineryError(f"MC_Plugins exported only {len(progs)} programs")
    cases = [{"id": f"plug{i}", "prog": p["prog"]} for i, p in enumerate(progs)]
    recs = [execute(c) for c in cases]
    verdicts, d, g = core.validate_traces("Trace_Plugins", recs, chunk=1000)
    rep.states += d
    rep.transitions += max(d, g)
    rep.traces_validated += len(recs)
    rep.evaluations += len(recs)
    bad = 0
    for r in recs:
        v = verdicts[r["id"]]
        if not core.tla_bool(v["ok"]):
            bad += 1
            rep.violations.append(core.Violation(prop, v["why"], f"{prop}:naming:{v['why']}", {"plugins": r["prog"]}, {"observed": r["obs"]}))
    rep.extra["type_naming_family"] = {"call_sequences": len(recs), "rejected": bad}


def replay(prop: str, scenario: dict):
    r = execute({"id": "replay", "prog": scenario["plugins"]})
    verdicts, _, _ = core.validate_traces("Trace_Plugins", [r])
    v = verdicts["replay"]
    return [] if core.tla_bool(v["ok"]) else [core.Violation(prop, v["why"], f"{prop}:naming:{v['why']}", scenario)]
