"""Race family: concurrent lookups through an asynchronous resource factory (specs/Race.tla, monitor specs/P_Race.tla).

TLC enumerates every program (which task asks which context for which type; one- or two-type factory) with every schedule of
the controllable steps (a task begins its lookup; the parked factory call of a context is released, successfully or with an
exception) and checks that the design satisfies the monitor. Each (program, schedule) is executed against real contexts on
both backends; the recorded trace is evaluated by TLC against the same monitor."""
from __future__ import annotations

import collections
import contextvars
import json

from . import core, tlc, vclock

CURK = contextvars.ContextVar("verif_race_task", default=0)


class T1:
    pass


class T2:
    pass


class FactoryBoom(Exception):
    pass


class Obj(T1, T2):
    def __init__(self, label):
        self.label = label


def execute(case):
    import anyio
    from asphalt.core import Context

    prog, hist, backend, seed = case["prog"], case["hist"], case["backend"], case.get("seed", 0)
    burst = case.get("burst", False)
    events = []
    log = events.append
    ts = [T1, T2] if prog["two"] else [T1]
    TYP = {1: T1, 2: T2}

    async def main():
        ncalls = collections.Counter()
        parked = {1: collections.deque(), 2: collections.deque()}
        begun, ended = set(), set()

        async def factory():
            k = CURK.get()
            c = prog["ctx"][k - 1] if k else 0
            ncalls[c] += 1
            n = ncalls[c]
            log({"ev": "call", "k": k, "c": c})
            gate = {"ev": anyio.Event(), "ok": True, "k": k}
            parked.setdefault(c, collections.deque()).append(gate)
            await gate["ev"].wait()
            if not gate["ok"]:
                raise FactoryBoom(c)
            return Obj(["g", c, n])

        async with anyio.create_task_group() as tg:
            async with Context() as c1:
                c1.add_resource_factory(factory, types=ts)
                spawn1 = anyio.create_memory_object_stream(100)

                async def spawner1(*, task_status):
                    # a task created while c1 is the current context: what it spawns has c1 as its current context as well
                    task_status.started()
                    async for fn, arg in spawn1[1]:
                        tg.start_soon(fn, arg)
                if case.get("inject"):
                    await tg.start(spawner1)
                async with Context() as c2:
                    ctxs = {1: c1, 2: c2}
                    if case.get("inject"):
                        c2.add_resource(Obj("static-of-2"), "only2")       # visible in c2 only: the decorated function's first marker

                    async def listen(c, *, task_status):
                        async with ctxs[c].resource_added.stream_events(max_queue_size=1000) as st:
                            task_status.started()
                            async for e in st:
                                if not e.is_factory:
                                    log({"ev": "ev", "c": c})
                    await tg.start(lambda *, task_status: listen(1, task_status=task_status))
                    await tg.start(lambda *, task_status: listen(2, task_status=task_status))

                    scopes = {}

                    async def lookup(k):
                      with anyio.CancelScope() as scopes[k]:
                        CURK.set(k)
                        c = prog["ctx"][k - 1]
                        log({"ev": "begin", "k": k, "c": c})
                        begun.add(k)
                        try:
                            if case.get("inject"):
                                # through ONE decorated function per (type, optional) shared by all tasks; the task's current context is ctxs[c]
                                from asphalt.core import current_context
                                if current_context() is not ctxs[c]:
                                    raise RuntimeError("harness: the lookup task does not run in its context")
                                who, v = await _inj(prog["typ"][k - 1], k % 2 == 0)(k)
                                want = ctxs[c].get_resource_nowait(Obj, "only2", optional=True)
                                log({"ev": "static", "k": k, "c": c, "got": getattr(who, "label", "none"), "want": getattr(want, "label", "none")})
                            elif k % 2:
                                v = await ctxs[c].get_resource(TYP[prog["typ"][k - 1]])
                            else:
                                v = await ctxs[c].get_resource(TYP[prog["typ"][k - 1]], "default", optional=True)
                            log({"ev": "end", "k": k, "c": c, "r": "obj", "v": getattr(v, "label", ["?", 0, 0])})
                        except anyio.get_cancelled_exc_class():
                            # the generating (or waiting) lookup was cancelled on purpose: for the others the same as a factory that raised
                            log({"ev": "end", "k": k, "c": c, "r": "error", "v": ["error", 0, 0]})
                            raise
                        except FactoryBoom:
                            log({"ev": "end", "k": k, "c": c, "r": "error", "v": ["error", 0, 0]})
                        except Exception as e:  # noqa: BLE001
                            log({"ev": "end", "k": k, "c": c, "r": "unexpected:" + type(e).__name__, "v": ["error", 0, 0]})
                        finally:
                            ended.add(k)

                    i = 0
                    drift = None
                    while i < len(hist):
                        a = hist[i]
                        i += 1
                        def start(k):
                            if case.get("inject") and prog["ctx"][k - 1] == 1:
                                spawn1[0].send_nowait((lookup, k))
                            else:
                                tg.start_soon(lookup, k)
                        if a["a"] == "begin":
                            start(a["k"])
                            while burst and i < len(hist) and hist[i]["a"] == "begin":
                                start(hist[i]["k"])
                                i += 1
                        else:
                            c = a["c"]
                            if not parked[c]:
                                drift = f"specification releases a factory call of context {c} but none is parked"
                                break
                            gate = parked[c].popleft()
                            gate["ok"] = a["ok"]
                            log({"ev": "release", "c": c, "ok": a["ok"]})
                            if a.get("cancel"):
                                scopes[gate["k"]].cancel()        # the task whose lookup runs the factory is cancelled while the factory awaits
                            else:
                                gate["ev"].set()
                        await vclock.quiescent()
                        log({"ev": "q", "blocked": sorted(begun - ended)})
                    # let everything finish: release whatever is still parked
                    for _ in range(10):
                        rest = [(c, g) for c in parked for g in parked[c]]
                        if not rest:
                            break
                        for c, g in rest:
                            parked[c].remove(g)
                            log({"ev": "release", "c": c, "ok": True})
                            g["ev"].set()
                        await vclock.quiescent()
                    log({"ev": "q", "blocked": sorted(begun - ended)})
                    for c in (1, 2):
                        vals = []
                        for T in ts:
                            got = ctxs[c].get_resources(T)
                            if "default" in got:
                                vals.append(getattr(got["default"], "label", ["?", 0, 0]))
                        log({"ev": "final", "c": c, "vals": vals})
                    if drift:
                        log({"ev": "drift", "what": drift})
                    tg.cancel_scope.cancel()

    try:
        vclock.run(main, backend=backend, seed=seed, shuffle=case.get("shuffle", False), watchdog=True)
    except BaseException as e:  # noqa: BLE001 - the driver never dies: the trace is still validated
        events.append({"ev": "crash", "what": repr(e)[:200]})
    return {"id": case["id"], "events": events}


_INJ = {}


def _inj(typ, opt):
    if (typ, opt) not in _INJ:
        from asphalt.core import inject, resource
        T = {1: T1, 2: T2}[typ]

        async def f(k, *, who=resource("only2"), dep=resource()):
            return who, dep
        f.__annotations__ = {"who": Obj | None, "dep": (T | None) if opt else T}
        _INJ[typ, opt] = inject(f)
    return _INJ[typ, opt]


def inject_check(prop: str, tier: str, seed: int, rep: core.Report, limit: int) -> None:
    """The race family with every lookup made through a decorated coroutine function shared by all tasks (C19): a (program, schedule)
    is reported only when the decorated execution is rejected by the race monitor while the explicit one is accepted."""
    import random
    n = 3
    cfg = open(tlc.SPECS / "MC_Race.cfg").read().replace("N = 3", f"N = {n}")
    res = tlc.run("MC_Race", cfg_text=cfg, workers=core.NCPU, big=True, heap="12g", timeout=3000, check=False)
    if res.error or res.invariant_violated:
        raise core.MachineryError(f"Race.tla: {res.invariant_violated or res.error}\n{res.out[-1500:]}")
    rep.add_tlc(res, f"MC_Race N={n}: (program, schedule) pairs for the decorated-lookup race family")
    pairs = sorted(res.printed(), key=lambda p: json.dumps(p, sort_keys=True))
    random.Random(seed).shuffle(pairs)
    pairs = [p for p in pairs if len({c for c in p["prog"]["ctx"]}) > 1 or len(p["hist"]) >= 4][:limit]
    cases = []
    for i, p in enumerate(pairs):
        be = vclock.BACKENDS[i % len(vclock.BACKENDS)]
        for inj in (True, False):
            cases.append({"id": f"{i}-{'inj' if inj else 'exp'}", "prog": p["prog"], "hist": p["hist"], "backend": be, "seed": seed + i, "burst": i % 3 == 0, "inject": inj})
    chunks = [cases[i:i + 200] for i in range(0, len(cases), 200)]
    traces = {t["id"]: t for ch in core.pmap(_exec_chunk, chunks, chunks=1) for t in ch}
    verdicts, d, g = core.validate_traces("Trace_Race", list(traces.values()), chunk=2000)
    rep.states += d
    rep.transitions += max(d, g)
    rep.traces_validated += len(traces)
    both_bad = 0
    for i, p in enumerate(pairs):
        vi, ve = verdicts[f"{i}-inj"], verdicts[f"{i}-exp"]
        bad_i = (vi.get("whys") or []) or ([] if core.tla_bool(vi["ok"]) else [vi["why"]])
        bad_e = (ve.get("whys") or []) or ([] if core.tla_bool(ve["ok"]) else [ve["why"]])
        crashed = any(e["ev"] == "crash" for e in traces[f"{i}-inj"]["events"])
        if (bad_i or crashed) and not bad_e:
            clause = "crash" if crashed and not bad_i else bad_i[0].split(":", 1)[-1]
            rep.violations.append(core.Violation(prop, f"decorated lookups racing in two contexts differ from the explicit lookups: {clause}", f"{prop}:race:{clause}",
                                                 {"kind": "race-inject", "case": next(c for c in cases if c["id"] == f"{i}-inj")}, {"events": traces[f"{i}-inj"]["events"][:60]}))
        elif bad_i:
            both_bad += 1
    rep.extra["decorated_race_family"] = {"pairs": len(pairs), "executions": len(traces), "rejected_with_and_without_the_decorator (another property's business)": both_bad}


def _exec_chunk(chunk):
    return [execute(c) for c in chunk]


def race_check(prop: str, tier: str, seed: int, rep: core.Report | None = None) -> core.Report:
    rep = rep or core.Report(prop, tier, seed)
    n = 3
    cfg = open(tlc.SPECS / "MC_Race.cfg").read().replace("N = 3", f"N = {n}")
    if tier == "thorough":
        cfg = cfg.replace("MaxFails = 1", "MaxFails = 2")
    res = tlc.run("MC_Race", cfg_text=cfg, workers=core.NCPU, big=True, heap="12g", timeout=3000, check=False)
    if res.error or res.invariant_violated:
        raise core.MachineryError(f"Race.tla: {res.invariant_violated or res.error}\n{res.out[-1500:]}")
    rep.add_tlc(res, f"MC_Race N={n}: design satisfies the race monitor, OncePerContext, SameInContext, OwnPerContext, NoLostWaiter; terminal (program, schedule) pairs exported")
    live = tlc.run("MC_Race", "MC_Race_live", workers=4, heap="4g", timeout=600, check=False)
    if live.error or live.property_violated:
        raise core.MachineryError(f"Race.tla liveness: {live.error or 'AllFinish violated'}")
    rep.add_tlc(live, "MC_Race_live: every lookup eventually returns under weak fairness (N=2)")
    pairs = list(res.printed())
    cases = []
    for i, p in enumerate(pairs):
        for be in vclock.BACKENDS:
            cases.append({"id": f"{i}-{be}", "prog": p["prog"], "hist": p["hist"], "backend": be, "seed": seed + i})
            if tier == "thorough" or i % 4 == 0:
                cases.append({"id": f"{i}-{be}-b", "prog": p["prog"], "hist": p["hist"], "backend": be, "seed": seed + i, "burst": True})
        if tier == "thorough":
            cases.append({"id": f"{i}-asyncio-s", "prog": p["prog"], "hist": p["hist"], "backend": "asyncio", "seed": seed + i, "burst": True, "shuffle": True})
    chunks = [cases[i:i + 200] for i in range(0, len(cases), 200)]
    traces = [t for ch in core.pmap(_exec_chunk, chunks, chunks=1) for t in ch]
    verdicts, d, g = core.validate_traces("Trace_Race", traces, chunk=2000)
    rep.states += d
    rep.transitions += max(d, g)
    rep.traces_validated += len(traces)
    rep.evaluations += len(traces)
    by = {c["id"]: c for c in cases}
    hits = collections.Counter()
    drift = 0
    nontrivial = 0
    for t in traces:
        v = verdicts[t["id"]]
        for h in v.get("hits", []):
            hits[h] += 1
        if "race" in v.get("hits", []) or any(e["ev"] == "q" and len(e["blocked"]) >= 2 for e in t["events"]):
            nontrivial += 1
        if any(e["ev"] in ("drift", "crash") for e in t["events"]):
            drift += 1
        for w in v.get("whys", []) or ([v["why"]] if not v["ok"] else []):
            plist, clause = w.split(":", 1)
            if prop in plist.split(","):
                c = by[t["id"]]
                rep.violations.append(core.Violation(prop, clause, f"{prop}:race:{clause}", {"kind": "race", "case": c}, {"events": t["events"][:60]}))
    rep.distinct_nontrivial += nontrivial
    rep.extra["race_family"] = {"programs_x_schedules": len(pairs), "executions": len(traces), "drift_or_crash": drift, "monitor_hits": dict(hits),
                                "nontrivial_rule": "executions in which at least two lookups were in flight at the same quiescent point"}
    if hits.get("race", 0) == 0 and hits.get("single", 0) == 0:
        raise core.MachineryError("race family vacuous: no lookup ever returned an object")
    if not rep.samples or prop == "C04":
        rep.samples.insert(0, {"program": pairs[len(pairs) // 2]["prog"], "schedule": pairs[len(pairs) // 2]["hist"]})
    return rep


def replay_case(prop: str, scenario: dict):
    t = execute(dict(scenario["case"], id="replay"))
    verdicts, _, _ = core.validate_traces("Trace_Race", [t])
    v = verdicts["replay"]
    out = []
    for w in v.get("whys", []):
        plist, clause = w.split(":", 1)
        if prop in plist.split(","):
            out.append(core.Violation(prop, clause, f"{prop}:race:{clause}", scenario, {"events": t["events"][:60]}))
    return out
