"""Conversion between Python configuration values and the tagged values of specs/Config.tla."""
from __future__ import annotations


def tag(x):
    if isinstance(x, dict):
        return {"t": "d", "v": {str(k): tag(v) for k, v in x.items()}}
    if isinstance(x, bool):
        return {"t": "b", "v": x}
    if isinstance(x, int):
        return {"t": "i", "v": x}
    if isinstance(x, str):
        return {"t": "s", "v": x}
    if x is None:
        return {"t": "n"}
    if isinstance(x, (list, tuple)):
        return {"t": "l", "v": [tag(y) for y in x]}
    if isinstance(x, bytes):
        return {"t": "y", "v": list(x)}
    if isinstance(x, float):
        return {"t": "f", "v": repr(x)}
    return {"t": "o", "v": type(x).__name__}


def tagd(d):
    return {str(k): tag(v) for k, v in d.items()}


def untag(x):
    t = x["t"]
    if t == "d":
        return {k: untag(v) for k, v in x["v"].items()}
    if t == "l":
        return [untag(v) for v in x["v"]]
    if t == "n":
        return None
    if t == "y":
        return bytes(x["v"])
    return x["v"]
