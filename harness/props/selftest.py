"""./check selftest — the machinery checks itself (not a registered property check):

 (1) specification mutants: textual changes to a copy of a specification that break the property at the design level; TLC must
     report the monitor invariant violated (the monitors are not vacuous on the models);
 (2) trace corruption: recorded traces of the real code with one field flipped or one event removed; the batch validator must
     reject them (the specification really binds what is recorded)."""
from __future__ import annotations

import copy
import json
import shutil

from .. import core, tlc, vclock

SPEC_MUTANTS = [
    # (module to run, cfg, file to patch, old text, new text, invariant expected to fail)
    ("MC_Teardown", "MC_Teardown", "Teardown.tla", "LET i == stack[Len(stack)] IN\n          /\\ running' = i /\\ stack' = SubSeq(stack, 1, Len(stack) - 1)",
     "LET i == stack[1] IN\n          /\\ running' = i /\\ stack' = SubSeq(stack, 2, Len(stack))", "MonOk", "teardown pops the OLDEST callback first"),
    ("MC_Race", "MC_Race", "Race.tla", "ELSE IF pend[c] # 0 THEN [pc |-> \"waiting\", pend |-> pend[c], got |-> NoV, calls |-> calls[c], m |-> m]",
     "ELSE IF FALSE THEN [pc |-> \"waiting\", pend |-> pend[c], got |-> NoV, calls |-> calls[c], m |-> m]", "MonOk",
     "a lookup that finds a generation in progress starts its own"),
    ("MC_Svc", "MC_Svc", "Svc.tla", "ELSE IF it.action = \"none\" THEN [r EXCEPT !.waitfor = k]", "ELSE IF it.action = \"none\" THEN r", "MonOk",
     "the finalizer of a task that must end by itself does not wait"),
    ("MC_Startup", "MC_Startup_C05", "Startup.tla", "WakeAll(r1, {d \\in 1..prog.n : r1.wait[d] # NoW /\\ r1.wait[d].n = n /\\ r1.wait[d].t \\in Range(op.ts)})",
     "WakeAll(r1, {d \\in 1..prog.n : r1.wait[d] # NoW /\\ r1.wait[d].n = n /\\ r1.wait[d].t = op.ts[1] /\\ op.x # \"res2\"})", "Mon6Ok",
     "a waiter is not woken by a publication made right after an unrelated one"),
    ("MC_Cur", "MC_Cur", "Cur.tla", "/\\ base' = [base EXCEPT ![u] = CurOf(t)] /\\ started' = started \\cup {u}", "/\\ base' = [base EXCEPT ![u] = 0] /\\ started' = started \\cup {u}",
     "StackDiscipline", None),
    ("MC_Tf", "MC_Tf", "Tf.tla", "IF prog.handler = \"truthy\" THEN Quiet(MaybeLeft(r3)) ELSE Quiet(CrashAll(r3, k))", "Quiet(MaybeLeft(r3))", "MonOk",
     "an exception the handler did not accept is swallowed"),
]


def spec_mutants(rep):
    results = []
    for mod, cfg, fname, old, new, inv, what in SPEC_MUTANTS:
        if what is None:
            continue
        src = (tlc.SPECS / fname).read_text()
        if src.count(old) != 1:
            raise core.MachineryError(f"selftest: text to mutate not found exactly once in {fname}")
        # the mutated specification lives in a scratch copy of specs/: the real files are never touched
        scratch = tlc.workdir() / "specs"
        shutil.copytree(tlc.SPECS, scratch)
        real = tlc.SPECS
        try:
            (scratch / fname).write_text(src.replace(old, new))
            tlc.SPECS = scratch
            res = tlc.run(mod, cfg, workers=core.NCPU, big=True, heap="12g", timeout=1800, check=False)
        finally:
            tlc.SPECS = real
            shutil.rmtree(scratch, ignore_errors=True)
        ok = inv in res.invariant_violated
        results.append({"spec": fname, "mutation": what, "tlc_reports": res.invariant_violated or res.error or "nothing", "as_expected": ok})
        print(f"spec mutant [{fname}: {what}] -> TLC: {res.invariant_violated or res.error or 'no violation'} {'OK' if ok else 'UNEXPECTED'}")
    rep.extra["spec_mutants"] = results
    return all(r["as_expected"] for r in results)


def trace_corruption(rep):
    from . import c01, c08
    results = []
    ok_all = True
    # C01: a good trace, then (a) two cb.begin events swapped, (b) one cb.end removed, (c) the exception passed to a callback altered
    prog = {"cbs": [{"kind": "ok", "async": False, "pass": True, "route": "direct", "during": False},
                    {"kind": "exc", "async": True, "pass": False, "route": "direct", "during": False}],
            "ending": "exc", "root": True, "ambient": False, "cancelDuring": 0}
    good = c01.execute({"id": "good", "prog": prog, "backend": "asyncio", "seed": 1})
    ev = good["events"]
    idx = [i for i, e in enumerate(ev) if e["ev"] == "cb.begin"]
    variants = {"good": ev}
    sw = copy.deepcopy(ev)
    sw[idx[0]]["cb"], sw[idx[1]]["cb"] = sw[idx[1]]["cb"], sw[idx[0]]["cb"]
    variants["cb.begin ids swapped"] = sw
    variants["a cb.end removed"] = [e for i, e in enumerate(ev) if not (e["ev"] == "cb.end" and e["cb"] == ev[idx[0]]["cb"])]
    alt = copy.deepcopy(ev)
    for e in alt:
        if e["ev"] == "cb.begin" and e["hasarg"]:
            e["arg"] = "none"
    variants["argument of the pass_exception callback altered"] = alt
    traces = [{"id": k, "events": v} for k, v in variants.items()]
    verdicts, _, _ = core.validate_traces("Trace_C01", traces)
    for k in variants:
        expect_ok = k == "good"
        got_ok = verdicts[k]["ok"]
        results.append({"monitor": "P_C01", "trace": k, "accepted": got_ok, "why": verdicts[k]["why"], "as_expected": got_ok == expect_ok})
        ok_all &= got_ok == expect_ok
        print(f"trace [{k}] -> {'accepted' if got_ok else 'rejected: ' + verdicts[k]['why']} {'OK' if got_ok == expect_ok else 'UNEXPECTED'}")
    # C08: the finalizer's wait: move the first cb.begin before the task's end
    prog8 = {"items": [{"kind": "res", "action": "", "beh": ""}, {"kind": "svc", "action": "call_ok", "beh": "slow"}], "nested": False, "ending": "return"}
    good8 = c08.execute({"id": "good8", "prog": prog8, "hist": [0], "backend": "trio", "seed": 1})
    ev8 = good8["events"]
    cbi = next(i for i, e in enumerate(ev8) if e["ev"] == "cb.begin")
    endi = next(i for i, e in enumerate(ev8) if e["ev"] == "svc.body.end")
    moved = [e for i, e in enumerate(ev8) if i != cbi]
    moved.insert(endi, ev8[cbi])
    dropped = [e for e in ev8 if e["ev"] != "svc.action"]
    traces8 = [{"id": "good8", "events": ev8}, {"id": "callback moved before the task's end", "events": moved}, {"id": "svc.action removed", "events": dropped}]
    verdicts8, _, _ = core.validate_traces("Trace_C08", traces8)
    for t in traces8:
        expect_ok = t["id"] == "good8"
        got_ok = verdicts8[t["id"]]["ok"]
        results.append({"monitor": "P_C08", "trace": t["id"], "accepted": got_ok, "why": verdicts8[t["id"]]["why"], "as_expected": got_ok == expect_ok})
        ok_all &= got_ok == expect_ok
        print(f"trace [{t['id']}] -> {'accepted' if got_ok else 'rejected: ' + verdicts8[t['id']]['why']} {'OK' if got_ok == expect_ok else 'UNEXPECTED'}")
    # route D: a recorded execution of the scenario programs, then one recorded field corrupted at a time
    from .. import suitectx
    rec = [t for t in suitectx.record_scenarios() if t["test"].startswith("generation_next_to_an_occupied_key[asyncio]")][0]
    good = suitectx.project("good-recorded", rec["events"])
    evs = good["events"]
    vari = {"good-recorded": evs}
    x = copy.deepcopy(evs)
    gi = next(i for i, e in enumerate(x) if e["ev"] == "get" and e["r"] == "val")
    x[gi]["vid"] += 1000
    vari["a lookup reports another object"] = x
    x = copy.deepcopy(evs)
    ai = next(i for i, e in enumerate(x) if e["ev"] == "add" and e["r"] == "ok")
    x[ai]["evs"] = []
    vari["the event of an add removed"] = x
    x = copy.deepcopy(evs)
    ni = next(i for i, e in enumerate(x) if e["ev"] == "new" and e["p"] != 0)
    x[ni]["post"][-1]["res"] = []
    vari["the child's inherited table emptied"] = x
    x = copy.deepcopy(evs)
    del x[next(i for i, e in enumerate(x) if e["ev"] == "addfac")]
    vari["the add_resource_factory call removed"] = x
    x = copy.deepcopy(evs)
    ei = next(i for i, e in enumerate(x) if e["ev"] == "getall")
    x[ei]["cur"] = 1 if x[ei]["cur"] != 1 else 2
    vari["the current context of a call altered"] = x
    tr = [{"id": k, "events": v} for k, v in vari.items()]
    vd, _, _ = core.validate_traces("Trace_CtxSuite", tr)
    for k in vari:
        expect_ok = k == "good-recorded"
        got_ok = core.tla_bool(vd[k]["ok"])
        results.append({"monitor": "Trace_CtxSuite", "trace": k, "accepted": got_ok, "why": vd[k]["why"], "as_expected": got_ok == expect_ok})
        ok_all &= got_ok == expect_ok
        print(f"recorded [{k}] -> {'accepted' if got_ok else 'rejected: ' + vd[k]['why']} {'OK' if got_ok == expect_ok else 'UNEXPECTED'}")
    rep.extra["trace_corruption"] = results
    return ok_all


def monitor_totality(rep, seed):
    """random corruption (events dropped, duplicated, swapped) of good traces of every family: whatever the verdict, the monitors
    must never make TLC fail - a violation must come out as a violation, not as an evaluation error"""
    import random
    from . import c01, c08, c09, c12, c15
    from .. import race, startup
    rnd = random.Random(seed)
    fams = []
    p01 = {"cbs": [{"kind": "ok", "async": True, "pass": True, "route": "ctxtd", "during": True}, {"kind": "base", "async": False, "pass": False, "route": "resource2", "during": False}],
           "ending": "cancel", "root": False, "ambient": False, "cancelDuring": 0}
    fams.append(("Trace_C01", [c01.execute({"id": "g", "prog": p01, "backend": "trio", "seed": 3})], None))
    p08 = {"items": [{"kind": "res", "action": "", "beh": ""}, {"kind": "svc", "action": "none", "beh": "gate"}, {"kind": "svc", "action": "call_async_raise", "beh": "forever"},
                     {"kind": "res", "action": "", "beh": ""}], "nested": True, "ending": "exc"}
    fams.append(("Trace_C08", [c08.execute({"id": "g", "prog": p08, "hist": [0, 2], "backend": "asyncio", "seed": 1})], None))
    p09 = {"handler": "falsy", "waiters": True, "tasks": [{"via": "ts", "where": "nested", "beh": "raise"}, {"via": "soon", "where": "other", "beh": "slowcancel"}]}
    h09 = [{"a": "spawn", "k": 1}, {"a": "started", "k": 1}, {"a": "spawncancel", "k": 2}, {"a": "leave", "k": 0}, {"a": "finish", "k": 1}]
    fams.append(("Trace_C09", [c09.execute({"id": "g", "prog": p09, "hist": h09, "backend": "trio", "seed": 1})], None))
    h12 = [{"a": "enter", "t": 1, "p": 0}, {"a": "spawn", "t": 1, "u": 2}, {"a": "enter", "t": 2, "p": 0}, {"a": "comp", "t": 2}, {"a": "leave", "t": 1, "how": "exc"}, {"a": "leave", "t": 2, "how": "cancel"}]
    fams.append(("Trace_C12", [c12.execute({"id": "g", "hist": h12, "backend": "asyncio", "seed": 1})], None))
    A = {"k": "add", "ts": ["A"], "n": "m", "x": "afac"}
    G = {"k": "get", "ts": ["A"], "n": "m", "x": "wait"}
    N = {"k": "noop", "ts": [], "n": "", "x": ""}
    ps = {"n": 3, "par": [0, 1, 1], "hp": [True, False, True], "hs": [True, True, True], "sp": [[N], [], [G]], "ss": [[N], [A], [N]], "drn": ["default", "default", "m"],
          "paths": ["", "k2", "k3/m"], "fail": {"c": 3, "phase": "starting"}, "timeout": True, "acyclic": True}
    st = startup.execute({"id": "g", "prog": ps, "hist": [1, 2, 3, 3], "fin": "raised", "backend": "trio", "seed": 2})
    for mod in ("Trace_C05", "Trace_C06", "Trace_C07"):
        fams.append((mod, [st], st["prog"]))
    pr = {"two": True, "ctx": [1, 1, 2], "typ": [1, 2, 1]}
    hr = [{"a": "begin", "k": 1}, {"a": "begin", "k": 2}, {"a": "begin", "k": 3}, {"a": "release", "c": 1, "ok": False}, {"a": "release", "c": 1, "ok": True}, {"a": "release", "c": 2, "ok": True}]
    fams.append(("Trace_Race", [race.execute({"id": "g", "prog": pr, "hist": hr, "backend": "asyncio", "seed": 1})], None))
    p15 = {"prog": {"n": 2, "cli": True, "end": {"kind": "result", "r": "5"}}, "outcome": {"k": "exit", "code": 5}}
    t15 = c15.execute({"id": "g", "prog": p15["prog"], "outcome": p15["outcome"], "backend": "asyncio", "seed": 1})
    fams.append(("Trace_C15", [t15], t15["prog"]))
    total = 0
    for mod, goods, prog in fams:
        traces = []
        for g in goods:
            ev = g["events"]
            for i in range(120):
                e2 = copy.deepcopy(ev)
                for _ in range(rnd.randint(1, 3)):
                    if not e2:
                        break
                    op = rnd.choice(["drop", "dup", "swap", "move"])
                    j = rnd.randrange(len(e2))
                    if op == "drop":
                        del e2[j]
                    elif op == "dup":
                        e2.insert(rnd.randrange(len(e2) + 1), copy.deepcopy(e2[j]))
                    elif op == "swap" and len(e2) > 1:
                        k = rnd.randrange(len(e2))
                        e2[j], e2[k] = e2[k], e2[j]
                    else:
                        x = e2.pop(j)
                        e2.insert(rnd.randrange(len(e2) + 1), x)
                t = {"id": f"{mod}-{i}", "events": e2}
                if prog is not None:
                    t["prog"] = prog
                traces.append(t)
        try:
            verdicts, _, _ = core.validate_traces(mod, traces, chunk=10 ** 6)
        except tlc.TLCError as e:
            print(f"monitor totality [{mod}] -> TLC FAILED on a corrupted trace: {str(e)[:300]} UNEXPECTED")
            rep.extra.setdefault("monitor_totality", []).append({"module": mod, "ok": False})
            return False
        rej = sum(1 for v in verdicts.values() if not v["ok"])
        total += len(traces)
        rep.extra.setdefault("monitor_totality", []).append({"module": mod, "corrupted_traces": len(traces), "rejected": rej, "ok": True})
        print(f"monitor totality [{mod}] -> {len(traces)} corrupted traces evaluated without a TLC error, {rej} rejected OK")
    return True


def run(tier, seed):
    rep = core.Report("selftest", tier, seed)
    a = spec_mutants(rep)
    b = trace_corruption(rep)
    b = monitor_totality(rep, seed) and b
    if not (a and b):
        raise core.MachineryError("selftest failed: see the lines marked UNEXPECTED")
    rep.rule = "self-test of the machinery: specification mutants must be rejected by TLC, corrupted traces by the batch validator"
    rep.samples = [rep.extra["spec_mutants"][0]]
    rep.evaluations = len(rep.extra["spec_mutants"]) + len(rep.extra["trace_corruption"])
    rep.distinct_nontrivial = rep.evaluations
    rep.states = rep.transitions = 1
    return rep


def replay(scenario):
    return []
