"""C01 — context teardown runs every callback exactly once, LIFO, one at a time.

Spec: Teardown.tla (pop loop split at the await) composed with the monitor P_C01. TLC enumerates every program of the bounded
family (callback kinds x sync/async x pass_exception x registration route x registers-during-teardown; block endings; root /
nested; cancellation in the body or while a chosen async callback is suspended; ambient handled exception), proves that the
design satisfies the monitor, and exports the programs. Each program is executed on asyncio and trio; the recorded trace is
evaluated by TLC against the same monitor (Trace_C01)."""
from __future__ import annotations

import collections
import json

from .. import core, tlc, vclock

PROP = "C01"


class HExc(Exception):
    pass


class HBase(BaseException):
    pass


class A:
    pass


class B:
    pass


def execute(case):
    import anyio
    from anyio import CancelScope, Event, create_task_group, get_cancelled_exc_class
    from asphalt.core import Context, add_teardown_callback, context_teardown

    sc = case["prog"]
    events = []

    def log(**e):
        events.append(e)

    async def main():
        C = get_cancelled_exc_class()
        gates = {}
        state = {"next": len(sc["cbs"]) + 1}
        done = Event()

        def exc_id(e):
            if e is None:
                return "none"
            if isinstance(e, C):
                return "cancel"
            return getattr(e, "hid", "foreign:" + type(e).__name__)

        def classify(e):
            if e is None:
                return dict(kind="normal", groups=[], exc="none")
            groups = []

            def only_cancel(x):
                if isinstance(x, BaseExceptionGroup):
                    return all(only_cancel(y) for y in x.exceptions)
                return isinstance(x, C)

            def walk(x):
                if isinstance(x, BaseExceptionGroup):
                    mem = [y.hid for y in x.exceptions if hasattr(y, "hid")]
                    others = [y for y in x.exceptions if not hasattr(y, "hid") and not isinstance(y, BaseExceptionGroup)]
                    groups.append(dict(members=mem, othersAllCancel=all(isinstance(y, C) for y in others)))
                    for y in x.exceptions:
                        walk(y)
            walk(e)
            if isinstance(e, BaseExceptionGroup):
                return dict(kind="cancelgroup" if only_cancel(e) else "group", groups=groups, exc="none")
            if isinstance(e, C):
                return dict(kind="cancel", groups=[], exc="cancel")
            return dict(kind="exc", groups=[], exc=getattr(e, "hid", "foreign"))

        def begin(i, args):
            log(ev="cb.begin", cb=i, hasarg=bool(args), arg=exc_id(args[0]) if args else "none")

        def finish(i, exc):
            log(ev="cb.end", cb=i, raised=exc is not None, exc=exc_id(exc) if exc is not None else "none", cancel=isinstance(exc, C))

        def make_exc(i, kind, args=()):
            if kind == "ok":
                return None
            if kind == "reraise":
                # raises the very object it was handed (the block's exception), nothing after a clean exit or a cancellation
                return args[0] if args and getattr(args[0], "hid", None) == "blk" else None
            x = HExc(f"cb{i}") if kind == "exc" else HBase(f"cb{i}")
            x.hid = f"cb{i}"
            return x

        def register_one_more():
            j = state["next"]
            state["next"] += 1

            def late(*args):
                begin(j, args)
                finish(j, None)
            state["ctx"].add_teardown_callback(late, True)
            log(ev="reg", cb=j, **{"pass": True})

        def mk(i, cb):
            kind, during = cb["kind"], cb["during"]
            if cb["async"]:
                async def f(*args):
                    begin(i, args)
                    try:
                        g = Event()
                        gates[i] = g
                        await g.wait()
                        if during:
                            register_one_more()
                        x = make_exc(i, kind, args)
                        if x:
                            raise x
                    except BaseException as e:
                        finish(i, e)
                        raise
                    else:
                        finish(i, None)
            else:
                def f(*args):
                    begin(i, args)
                    if during:
                        register_one_more()
                    x = make_exc(i, kind, args)
                    finish(i, x)
                    if x:
                        raise x
            if cb["async"] and (case.get("seed", 0) + i) % 3 == 2:
                # the same callback as a plain function that returns an awaitable which is not a coroutine ("the callback may
                # return an awaitable"): it has run only when that awaitable has been awaited
                class Handle:
                    def __init__(self, coro):
                        self._coro = coro

                    def __await__(self):
                        return self._coro.__await__()

                def starter(*args, _f=f):
                    return Handle(_f(*args))
                return starter
            if (case.get("seed", 0) + i) % 3 == 1:
                # the same callback as an instance with __call__ (no __name__ / __qualname__ of its own)
                class CallableObject:
                    def __call__(self, *args, _f=f):
                        return _f(*args)
                return CallableObject()
            return f

        async def block():
            observed = None
            try:
                async with Context() as ctx:
                    state["ctx"] = ctx
                    for i, cb in enumerate(sc["cbs"], start=1):
                        route = cb["route"]
                        if route == "resource":
                            ctx.add_resource(A(), f"r{i}", teardown_callback=mk(i, cb))
                        elif route == "resource2":
                            ctx.add_resource(type("AB", (A, B), {})(), f"r{i}", [A, B], teardown_callback=mk(i, cb))
                        elif route == "ctxtd":
                            f = mk(i, cb)

                            @context_teardown
                            async def gen(f=f):
                                exc = yield
                                await f(exc)
                            await gen()
                        elif cb["pass"]:
                            if i % 2:
                                ctx.add_teardown_callback(mk(i, cb), True)
                            else:
                                add_teardown_callback(mk(i, cb), pass_exception=True)
                        else:
                            if i % 2:
                                ctx.add_teardown_callback(mk(i, cb))
                            else:
                                add_teardown_callback(mk(i, cb), False)
                        log(ev="reg", cb=i, **{"pass": cb["pass"]})
                    if case.get("seed", 0) % 4 == 3 and "outer_tg" in state:
                        # another task has a lookup in flight on an asynchronous factory of this context when the block is left (it stays
                        # in flight until the teardown is over): that must not keep a single callback from running
                        fgate = Event()
                        state["fgate"] = fgate

                        async def slow_factory():
                            await fgate.wait()
                            return B()

                        async def helper():
                            try:
                                await ctx.get_resource(B, "inflight")
                            except BaseException:  # noqa: BLE001
                                pass
                        ctx.add_resource_factory(slow_factory, "inflight", types=[B])
                        state["outer_tg"].start_soon(helper)
                        await anyio.sleep(0)
                    if sc.get("bogus"):
                        # a rejected registration: its callback must never run
                        from asphalt.core import ResourceConflict
                        ctx.add_resource(B(), "dup")
                        try:
                            ctx.add_resource(B(), "dup", teardown_callback=lambda *a: begin(0, a))
                        except ResourceConflict:
                            pass
                    if sc["ending"] in ("exc", "base"):
                        x = HExc("blk") if sc["ending"] == "exc" else HBase("blk")
                        x.hid = "blk"
                        log(ev="exit.begin", how=sc["ending"], exc="blk")
                        raise x
                    if sc["ending"] == "cancel":
                        log(ev="exit.begin", how="cancel", exc="cancel")
                        g = Event()
                        gates["body"] = g
                        await g.wait()
                    log(ev="exit.begin", how="return", exc="none")
            except BaseException as e:  # noqa: BLE001
                observed = e
            d = classify(observed)
            d["plainexc"] = sc["ending"] == "exc"
            log(ev="exit.end", **d)
            log(ev="closed", v=bool(state["ctx"].closed))
            if observed is not None and not isinstance(observed, Exception):
                raise observed

        async def worker():
            try:
                with CancelScope() as scope:
                    state["scope"] = scope

                    async def inner():
                        if sc["ambient"]:
                            try:
                                raise KeyError("ambient")
                            except KeyError:
                                await block()
                        else:
                            await block()
                    if sc["root"]:
                        await inner()
                    else:
                        async with Context():
                            await inner()
            except BaseException:  # noqa: BLE001
                pass
            finally:
                if "fgate" in state:
                    state["fgate"].set()
                done.set()

        async with create_task_group() as tg:
            state["outer_tg"] = tg
            tg.start_soon(worker)
            for _ in range(60):
                await vclock.quiescent()
                if done.is_set():
                    break
                if "body" in gates:
                    gates.pop("body")
                    state["scope"].cancel()
                    continue
                pend = [k for k in gates if k != "body"]
                if not pend:
                    break
                k = pend[0]
                g = gates.pop(k)
                if sc["cancelDuring"] == k:
                    state["scope"].cancel()
                else:
                    g.set()
            tg.cancel_scope.cancel()

    try:
        vclock.run(main, backend=case["backend"], seed=case.get("seed", 0), shuffle=case.get("shuffle", False), watchdog=True)
    except BaseException as e:  # noqa: BLE001
        events.append({"ev": "crash", "what": repr(e)[:200]})
    return {"id": case["id"], "events": events}


def _exec_chunk(chunk):
    return [execute(c) for c in chunk]


def task_context_traces():
    """The context of a TaskFactory task and of a service task is an `async with Context()` block like any other: when the task is
    ended through its handle (or by the default teardown action) the block was left by cancellation, and its pass_exception
    callbacks receive that cancellation. One trace per (kind of task, backend) for the same monitor."""
    import anyio
    from asphalt.core import Context, current_context
    out = []
    for kind in ("factory-task", "service-task"):
        for backend in vclock.BACKENDS:
            events = []
            log = events.append

            async def main(kind=kind):
                C = anyio.get_cancelled_exc_class()
                stash = {}

                def classify(exc):
                    return "none" if exc is None else ("cancel" if isinstance(exc, C) else "other")

                async def func():
                    ctx = stash["ctx"] = current_context()

                    def cb(exc):
                        log({"ev": "cb.begin", "cb": 1, "hasarg": True, "arg": classify(exc)})
                        log({"ev": "cb.end", "cb": 1, "raised": False, "exc": "none", "cancel": False})
                    ctx.add_teardown_callback(cb, pass_exception=True)
                    log({"ev": "reg", "cb": 1, "pass": True})
                    try:
                        await anyio.sleep_forever()
                    except C:
                        log({"ev": "exit.begin", "how": "cancel", "exc": "cancel"})
                        raise
                async with Context() as owner:
                    if kind == "factory-task":
                        factory = await owner.start_background_task_factory()
                        handle = factory.start_task_soon(func, "t")
                        await vclock.quiescent()
                        handle.cancel()
                        await handle.wait_finished()
                    else:
                        await owner.start_service_task(func, "svc")       # default teardown action: cancel
                        await vclock.quiescent()
                log({"ev": "exit.end", "kind": "cancel", "groups": [], "exc": "cancel", "plainexc": False})
                log({"ev": "closed", "v": bool(stash["ctx"].closed)})
            try:
                vclock.run(main, backend=backend, seed=0, watchdog=True)
            except BaseException as e:  # noqa: BLE001
                events.append({"ev": "crash", "what": repr(e)[:200]})
            out.append({"id": f"taskctx:{kind}:{backend}", "events": events})
    return out


def suite_traces():
    """Run the repository's own test suite with the tracing hook on (ASPHALT_VERIF_HOOKS=trace) and turn what every context did
    with its teardown callbacks into traces for the C01 monitor (one trace per context that ran at least one callback)."""
    import os
    import subprocess
    import sys
    wd = tlc.workdir()
    out = wd / "suite.json"
    env = dict(os.environ, ASPHALT_VERIF_HOOKS="trace", VERIF_TRACE_OUT=str(out), PYTHONPATH=f"{core.REPO}/src:{core.VERIF}", PYTHONDONTWRITEBYTECODE="1")
    p = subprocess.run([sys.executable, "-m", "pytest", "-q", "-p", "no:cacheprovider", "-p", "harness.pytest_trace_plugin", "--timeout=300", "tests"],
                       cwd="/repo", env=env, capture_output=True, text=True, timeout=1200)
    if not out.exists():
        raise core.MachineryError("the traced run of the repository's test suite produced no trace file:\n" + p.stdout[-800:] + p.stderr[-400:])
    data = json.load(open(out))
    traces = []
    for t in data:
        by_ctx = collections.OrderedDict()
        for e in t["events"]:
            if e["ev"] in ("reg", "cb.begin", "cb.end"):        # the context-operation events of the same hook belong to suitectx.py
                by_ctx.setdefault(e["ctx"], []).append(e)
        for n, (ctx, evs) in enumerate(by_ctx.items()):
            if not any(e["ev"] == "cb.begin" for e in evs):
                continue
            ids = {}
            first_arg = next((e["arg"] for e in evs if e["ev"] == "cb.begin" and e["hasarg"]), 0)
            blk = "none" if not first_arg else f"x{first_arg}"
            out_ev = []
            begun = False
            for e in evs:
                cb = ids.setdefault(e["cb"], len(ids) + 1)
                if e["ev"] == "reg":
                    out_ev.append({"ev": "reg", "cb": cb, "pass": bool(e["pass"])})
                elif e["ev"] == "cb.begin":
                    if not begun:
                        begun = True
                        out_ev.append({"ev": "exit.begin", "how": "unknown", "exc": blk})
                    out_ev.append({"ev": "cb.begin", "cb": cb, "hasarg": bool(e["hasarg"]), "arg": "none" if not e["arg"] else f"x{e['arg']}"})
                else:
                    out_ev.append({"ev": "cb.end", "cb": cb, "raised": bool(e["raised"]), "exc": f"cb{cb}" if e["raised"] else "none", "cancel": False})
            traces.append({"id": f"suite:{t['test']}#{n}", "events": out_ev})
    return traces


def run(tier: str, seed: int) -> core.Report:
    rep = core.Report(PROP, tier, seed)
    cfg = open(tlc.SPECS / "MC_Teardown.cfg").read()
    runs = [cfg]
    # three callbacks with a thinner alphabet (order and exactly-once need three to tell LIFO from other orders)
    runs.append(cfg.replace("MaxCbs = 2", "MaxCbs = 3").replace('Kinds = {"ok", "exc", "base", "reraise"}', 'Kinds = {"ok", "exc", "reraise"}')
                .replace('Routes = {"direct", "resource", "resource2", "ctxtd"}', 'Routes = {"direct"}' if tier == "quick" else 'Routes = {"direct", "resource2", "ctxtd"}')
                .replace("Durings = {TRUE, FALSE}", "Durings = {FALSE}" if tier == "quick" else "Durings = {TRUE, FALSE}"))
    programs = []
    for k, c in enumerate(runs):
        res = tlc.run("MC_Teardown", cfg_text=c, workers=core.NCPU, big=True, heap="16g", timeout=3000, check=False)
        if res.error or res.invariant_violated:
            raise core.MachineryError(f"Teardown.tla: {res.invariant_violated or res.error}\n{res.out[-1500:]}")
        rep.add_tlc(res, f"MC_Teardown run {k + 1}: design satisfies the C01 monitor (MonOk) and AllRan; terminal programs exported")
        programs += [p for p in res.printed() if k == 0 or len(p["prog"]["cbs"]) == 3]
    live = tlc.run("MC_Teardown", "MC_Teardown_live", workers=8, heap="4g", timeout=900, check=False)
    if live.error or live.property_violated:
        raise core.MachineryError(f"Teardown.tla liveness: {live.error or 'Terminates violated'}")
    rep.add_tlc(live, "MC_Teardown_live: teardown always terminates (weak fairness)")
    cases = []
    for i, p in enumerate(programs):
        # quick: every program on one backend, alternating; thorough: on both
        for be in (vclock.BACKENDS if tier == "thorough" else [vclock.BACKENDS[(i + seed) % 2]]):
            cases.append({"id": f"{i}-{be}", "prog": p["prog"], "backend": be, "seed": seed + i})
        if tier == "thorough":
            cases.append({"id": f"{i}-asyncio-s", "prog": p["prog"], "backend": "asyncio", "seed": seed + i, "shuffle": True})
    chunks = [cases[i:i + 300] for i in range(0, len(cases), 300)]
    traces = [t for ch in core.pmap(_exec_chunk, chunks, chunks=1) for t in ch]
    verdicts, d, g = core.validate_traces("Trace_C01", traces, chunk=4000)
    rep.states += d
    rep.transitions += max(d, g)
    rep.traces_validated = len(traces)
    rep.evaluations = len(traces)
    by = {c["id"]: c for c in cases}
    hits = collections.Counter()
    exp_hits = {i: set(p["hits"]) for i, p in enumerate(programs)}
    nontrivial = set()
    drift = 0
    for t in traces:
        v = verdicts[t["id"]]
        hs = set(v.get("hits", []))
        for h in hs:
            hits[h] += 1
        c = by[t["id"]]
        if len(c["prog"]["cbs"]) >= 2:
            nontrivial.add(json.dumps(c["prog"], sort_keys=True))
        if v["ok"] and hs != exp_hits[int(t["id"].split("-")[0])]:
            drift += 1
        if not v["ok"]:
            first = c["prog"]["cbs"][0] if c["prog"]["cbs"] else {}
            sig = f"C01:{v['why']}"
            rep.violations.append(core.Violation(PROP, v["why"], sig, {"case": c}, {"events": t["events"][:50], "step": v["step"]}))
    need = {"reg", "reg-during-teardown", "pass", "plain", "cb-raised", "grouped", "cancelled", "clean", "own-exception"}
    if not need <= set(hits) and not rep.violations:
        raise core.MachineryError(f"vacuous: monitor clauses never exercised: {sorted(need - set(hits))}")
    # code -> spec on an independent workload: the repository's own tests, traced through the guarded hook
    st = suite_traces() + task_context_traces()
    sverd, d2, g2 = core.validate_traces("Trace_C01", st)
    rep.states += d2
    rep.transitions += max(d2, g2)
    rep.traces_validated += len(st)
    rep.extra["repository_test_suite"] = {"contexts_with_teardown_callbacks_traced": len(st), "rejected": sum(1 for v in sverd.values() if not v["ok"])}
    for t in st:
        v = sverd[t["id"]]
        if not v["ok"]:
            rep.violations.append(core.Violation(PROP, v["why"], f"C01:{v['why']}", {"suite_test": t["id"]}, {"events": t["events"][:50], "step": v["step"]}))
    rep.distinct_nontrivial = len(nontrivial)
    rep.rule = (f"{len(programs)} programs enumerated by TLC: all sequences of <= 2 callbacks over kind {{ok, Exception, BaseException}} x sync/async x "
                "pass_exception x route {add_teardown_callback, add_resource(1 type), add_resource(2 types), @context_teardown} x registers-another-during-"
                "teardown, plus 3-callback programs over a thinner alphabet; x block ending {return, Exception, BaseException, cancelled in the body} x "
                "cancellation while each async callback is suspended x root/nested x ambient handled exception; quick: each program on one backend (alternating), thorough: on asyncio, trio and shuffled asyncio; "
                "non-trivial = at least two callbacks; distinct by program")
    rep.extra.update({"programs": len(programs), "monitor_hits": dict(hits), "traces_whose_clause_hits_differ_from_the_specification (drift)": drift})
    rep.samples = [programs[len(programs) // 3]["prog"], programs[-1]["prog"]]
    rep.assumptions = ["the traced run of the repository's tests observes registration, start and completion of callbacks through the guarded hook (ASPHALT_VERIF_HOOKS=trace); how a block ended is not traced there",
                       "async callbacks of the harness park at a gate; a cancelled async callback re-raises the backend's cancellation exception",
                       "cancellation exceptions are exempt from the grouped clause (trio collapses all-cancelled groups); member order inside the group is not checked",
                       "callbacks that swallow cancellation are not generated"]
    from .. import suitectx
    suitectx.add_to(rep, PROP)
    return rep


def replay(scenario):
    if "recorded" in scenario:
        from .. import suitectx
        return suitectx.replay(PROP, scenario)
    if "suite_test" in scenario:
        src = task_context_traces() if scenario["suite_test"].startswith("taskctx:") else suite_traces()
        st = [t for t in src if t["id"] == scenario["suite_test"]]
        verd, _, _ = core.validate_traces("Trace_C01", st)
        return [core.Violation(PROP, v["why"], f"C01:{v['why']}", scenario) for v in verd.values() if not v["ok"]]
    t = execute(dict(scenario["case"], id="replay"))
    verdicts, _, _ = core.validate_traces("Trace_C01", [t])
    v = verdicts["replay"]
    c = scenario["case"]
    return [] if v["ok"] else [core.Violation(PROP, v["why"], f"C01:{v['why']}", scenario, {"events": t["events"][:50]})]
