"""C10 — events reach exactly the active subscribers, exactly once, in dispatch order (harness/sigreplay.py)."""
from .. import core, sigreplay

PROP = "C10"


def run(tier, seed):
    return sigreplay.check(PROP, tier, seed)


def replay(scenario):
    rep = sigreplay.check(PROP, "quick", scenario.get("seed", 1))
    return rep.violations[:1]
