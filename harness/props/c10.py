"""C10 — events reach exactly the active subscribers, exactly once, in dispatch order (harness/sigreplay.py)."""
from .. import core, sigreplay

PROP = "C10"


def static_rows(rep):
    cases = sigreplay.delivery_cases()
    verdicts, d, g = core.validate_traces("Trace_C11", cases)
    rep.states += d
    rep.transitions += max(d, g)
    rep.extra["static_rows"] = {c["id"]: (verdicts[c["id"]]["why"] or "ok") for c in cases}
    for c in cases:
        v = verdicts[c["id"]]
        if not core.tla_bool(v["ok"]):
            rep.violations.append(core.Violation(PROP, v["why"], f"C10:static:{v['why']}", {"kind": "static", "case": c["id"]}, {"rows": c["rows"]}))


def run(tier, seed):
    rep = sigreplay.check(PROP, tier, seed)
    static_rows(rep)
    return rep


def replay(scenario):
    if scenario.get("kind") == "static":
        rep = core.Report(PROP, "quick", 1)
        static_rows(rep)
        return rep.violations[:1]
    rep = sigreplay.check(PROP, "quick", scenario.get("seed", 1))
    return rep.violations[:1]
