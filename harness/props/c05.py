"""C05 — component trees start in order: construct all, prepare, children, then start (specs/Startup.tla + monitor P_C05)."""
import random

from .. import core, startup, tlc

PROP = "C05"


def pick(pairs, tier, seed):
    rnd = random.Random(seed)
    ret = [p for p in pairs if p["fin"] == "ret"]
    stuck = [p for p in pairs if p["fin"] != "ret"]
    rnd.shuffle(stuck)
    if tier == "quick":
        rnd.shuffle(ret)
        # the focused family (names m1/m2) is small: keep a fixed share of it
        def focused(p):
            return p["prog"]["n"] == 4 and any(op["n"] in ("m1", "m2") for sc in p["prog"]["ss"] for op in sc)

        def two_waiters(p):     # two children wait for different names, the third publishes both
            ss = p["prog"]["ss"]
            return sum(1 for sc in ss if len(sc) == 1 and sc[0]["k"] == "get") == 2 and sum(1 for sc in ss if len(sc) == 2 and all(o["k"] == "add" for o in sc)) == 1
        foc = [p for p in ret if focused(p)]
        ret = [p for p in ret if not focused(p)][:8000] + [p for p in foc if two_waiters(p)] + [p for p in foc if not two_waiters(p)][:1500]
    return ret + stuck[:1500 if tier == "quick" else 20000]


def run(tier, seed):
    cfg = open(tlc.SPECS / "MC_Startup_C05.cfg").read()
    cfgs = [("C05 family, 3 components", cfg),
            ("C05 focused family: flat tree, up to 3 children, two waiters for different names and a publisher of both", open(tlc.SPECS / "MC_Startup_C05c.cfg").read())]
    live = tlc.run("MC_Startup", "MC_Startup_live", workers=8, heap="8g", timeout=1800, check=False)
    if live.error or live.property_violated:
        raise core.MachineryError(f"Startup.tla liveness: {live.error or 'Finishes violated'}")
    rep = startup.family_check(PROP, tier, seed, cfgs, "Trace_C05", {"prepare", "start-after-descendants", "returned", "q", "visible", "torn-down"}, pick,
                                "all trees of <= 3 components x with/without prepare()/start() x scripts of <= 1 step per phase over {publish A, publish B, wait for A, wait for B} "
                                "x every order of releasing the gates, enumerated by TLC; plus flat trees of up to 3 children with scripts of <= 2 steps over {wait m1, wait m2, publish m1, publish m2};  quick executes a seeded sample of the completing pairs and of the pairs that must get "
                                "stuck (cyclic or unsatisfiable waits), thorough all completing pairs; each on asyncio and trio, a third also with bursts; "
                                "non-trivial = schedules of at least two releases; distinct by (program, schedule)",
                                ["whether a program can complete (acyclic dependencies) is taken from the specification's own verdict for that program"])
    rep.add_tlc(live, "MC_Startup_live (2 components, faults and timeout): under weak fairness every start_component call finishes or is stuck for a reason the specification names, and the context is left")
    return rep


def replay(scenario):
    return startup.replay_case(PROP, "Trace_C05", scenario)
