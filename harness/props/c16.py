"""C16 — `asphalt run`: documented configuration precedence and deterministic service selection.

Spec: Config.RunPipeline. (1) TLC enumerates a bounded family of command lines (MC_Pipeline), checks the statement as
invariants of the specification and prints (command line, expected outcome); every pair is replayed through the real
command. (2) Seeded random command lines (deeper files, escaped dots, YAML-typed values, !Env/!TextFile/!BinaryFile, all
strings of length <= 5 over {a, b, ., \\} as override keys) are run through the real command and TLC compares what
run_application was handed with RunPipeline (Trace_C16)."""
from __future__ import annotations

import itertools
import json
import os
import pathlib
import random
import sys
import tempfile

import yaml

from .. import core, tlc
from ..tagged import tag, tagd, untag

PROP = "C16"
sys.path.insert(0, str(core.VERIF / "harness" / "fixtures"))
T1, T2 = "verif_cli_fixture:T1", "verif_cli_fixture:T2"


# ------------------------------------------------------------------------------------------ YAML with custom tags
class EnvRef:
    def __init__(self, var):
        self.var = var


class TextRef:
    def __init__(self, path):
        self.path = path


class BinRef:
    def __init__(self, path):
        self.path = path


class _Dumper(yaml.SafeDumper):
    pass


_Dumper.add_representer(EnvRef, lambda d, x: d.represent_scalar("!Env", x.var))
_Dumper.add_representer(TextRef, lambda d, x: d.represent_scalar("!TextFile", x.path))
_Dumper.add_representer(BinRef, lambda d, x: d.represent_scalar("!BinaryFile", x.path))

ENVVARS = {"VERIF_E1": "from-env", "VERIF_E2": "42", "VERIF_E4": ""}   # VERIF_E3 is deliberately unset, VERIF_E4 set to the empty string
TEXT = "text file\ncontent\n"
BIN = bytes([0, 1, 2, 255, 10])


def resolve(x, d):
    """The value the specification sees for a generated leaf (tags replaced by what they stand for)."""
    if isinstance(x, dict):
        return {k: resolve(v, d) for k, v in x.items()}
    if isinstance(x, list):
        return [resolve(v, d) for v in x]
    if isinstance(x, EnvRef):
        return ENVVARS.get(x.var)
    if isinstance(x, TextRef):
        return TEXT
    if isinstance(x, BinRef):
        return BIN
    return x


def with_paths(x, d, memo=None):
    """replace the file-tag placeholders by tags with real paths; objects that occur twice stay ONE object (YAML aliases)"""
    memo = {} if memo is None else memo
    if isinstance(x, dict):
        if id(x) not in memo:
            memo[id(x)] = out = {}
            out.update({k: with_paths(v, d, memo) for k, v in x.items()})
        return memo[id(x)]
    if isinstance(x, list):
        return [with_paths(v, d, memo) for v in x]
    if isinstance(x, TextRef):
        return TextRef(str(pathlib.Path(d, "t.txt")))
    if isinstance(x, BinRef):
        return BinRef(str(pathlib.Path(d, "b.bin")))
    return x


# ------------------------------------------------------------------------------------------ executing one command line
def key_text(path):
    return ".".join(p.replace(".", "\\.") for p in path)


def val_text(v):
    if isinstance(v, EnvRef):
        return "!Env " + v.var              # the value of an override may carry a tag too
    return yaml.safe_dump(v, default_flow_style=True).strip().replace("\n...", "").replace("\n", " ")


def invoke(case, tmp):
    """case: {id, files (python dicts, may contain tag refs), sets [{path|chars|noeq, val, text}], flag, env}."""
    from unittest.mock import patch
    from click.testing import CliRunner
    import asphalt.core._cli as cli

    names = []
    for i, f in enumerate(case["files"]):
        p = pathlib.Path(tmp, f"f{i}.yml")
        p.write_text(yaml.dump(with_paths(f, tmp), Dumper=_Dumper))
        names.append(str(p))
    args = list(names)
    for s in case["sets"]:
        args += ["--set", s["text"]]
    if case["flag"]:
        args += ["--service", case["flag"]]
    envd = dict(ENVVARS)
    envd["ASPHALT_SERVICE"] = case["env"] if case["env"] else None
    with patch.object(cli, "run_application") as ra:
        res = CliRunner(env=envd).invoke(cli.run, args)
    if ra.call_count == 1 and res.exit_code == 0:
        a, kw = ra.call_args
        return {"kind": "launch", "type": tag(a[0]), "comp": tagd(a[1]), "top": tagd(kw)}
    if ra.call_count == 0 and res.exit_code != 0:
        return {"kind": "error", "exit": res.exit_code, "exc": repr(res.exception)[:120]}
    return {"kind": "odd", "exit": res.exit_code, "calls": ra.call_count, "exc": repr(res.exception)[:120]}


def invoke_real(case, tmp):
    """the same command line without any recorder: asphalt really starts the root component (a CLI component returning 0)"""
    from click.testing import CliRunner
    import asphalt.core._cli as cli
    import verif_cli_fixture as fx

    names = []
    for i, f in enumerate(case["files"]):
        p = pathlib.Path(tmp, f"r{i}.yml")
        p.write_text(yaml.dump(with_paths(f, tmp), Dumper=_Dumper))
        names.append(str(p))
    args = list(names)
    for s in case["sets"]:
        args += ["--set", s["text"]]
    if case["flag"]:
        args += ["--service", case["flag"]]
    envd = dict(ENVVARS)
    envd["ASPHALT_SERVICE"] = case["env"] if case["env"] else None
    del fx.LAUNCHES[:]
    res = CliRunner(env=envd).invoke(cli.run, args)
    if len(fx.LAUNCHES) == 1 and res.exit_code == 0 and len(fx.LAUNCHES[0]) == 4:
        cls, kwargs, tokens, backend = fx.LAUNCHES[0]
        return {"kind": "launch", "type": tag(f"verif_cli_fixture:{cls}"), "comp": tagd(kwargs), "max_threads": tokens, "backend": backend}
    if not fx.LAUNCHES and res.exit_code != 0:
        return {"kind": "error", "exit": res.exit_code}
    return {"kind": "odd", "exit": res.exit_code, "launches": len(fx.LAUNCHES), "exc": repr(res.exception)[:120]}


def _real_chunk(chunk):
    import logging
    old = os.environ.pop("ASPHALT_SERVICE", None)
    recs = []
    with tempfile.TemporaryDirectory(dir=tlc.workdir()) as tmp:
        pathlib.Path(tmp, "t.txt").write_text(TEXT)
        pathlib.Path(tmp, "b.bin").write_bytes(BIN)
        for case in chunk:
            rec = to_spec_case(case)
            rec["id"] = "real-" + str(case["id"])
            rec["real"] = True
            rec["obs"] = invoke_real(case, tmp)
            recs.append(rec)
    if old is not None:
        os.environ["ASPHALT_SERVICE"] = old
    return recs


def to_spec_case(case):
    out = {"id": case["id"], "files": [tagd(resolve(f, None)) for f in case["files"]], "flag": case["flag"], "env": case["env"], "sets": []}
    for s in case["sets"]:
        if s.get("noeq"):
            out["sets"].append({"noeq": True})
        elif "chars" in s:
            out["sets"].append({"chars": s["chars"], "val": tag(s["val"])})
        else:
            out["sets"].append({"path": s["path"], "val": tag(resolve(s["val"], None))})
    return out


def _run_chunk(chunk):
    old = os.environ.pop("ASPHALT_SERVICE", None)
    recs = []
    with tempfile.TemporaryDirectory(dir=tlc.workdir()) as tmp:
        pathlib.Path(tmp, "t.txt").write_text(TEXT)
        pathlib.Path(tmp, "b.bin").write_bytes(BIN)
        for case in chunk:
            rec = to_spec_case(case)
            rec["obs"] = invoke(case, tmp)
            recs.append(rec)
    if old is not None:
        os.environ["ASPHALT_SERVICE"] = old
    return recs


# ------------------------------------------------------------------------------------------ case families
def from_tlc(printed):
    cases = []
    for i, c in enumerate(printed):
        cc = c["case"]
        sets = []
        for s in cc["sets"]:
            v = untag(s["val"])
            if "chars" in s:
                sets.append({"chars": s["chars"], "val": v, "text": "".join(s["chars"]) + "=" + val_text(v)})
            else:
                sets.append({"path": s["path"], "val": v, "text": key_text(s["path"]) + "=" + val_text(v)})
        cases.append({"id": f"m{i}", "files": [{k: untag(v) for k, v in f.items()} for f in cc["files"]], "sets": sets,
                      "flag": cc["flag"], "env": cc["env"], "exp": c["exp"]})
    return cases


def split_cases():
    """Every string of length <= 5 over {a, b, ., backslash} as the key of one override (exhaustive SplitKey binding)."""
    cases = []
    base = {"component": {"type": T1}}
    n = 0
    for ln in range(1, 6):
        for chars in itertools.product("ab.\\", repeat=ln):
            n += 1
            cases.append({"id": f"k{n}", "files": [base], "flag": "", "env": "",
                          "sets": [{"chars": ["x", "."] + list(chars), "val": 1, "text": "x." + "".join(chars) + "=1"}]})
    return cases


def rand_cases(rnd: random.Random, n: int):
    leaves = [1, 2, "x", None, [1], True, EnvRef("VERIF_E1"), EnvRef("VERIF_E3"), EnvRef("VERIF_E4"), TextRef(""), BinRef("")]

    def rand_comp(depth=2):
        d = {}
        for k in ("a", "b.c", "n"):
            r = rnd.random()
            if r < 0.35:
                continue
            d[k] = rnd.choice(leaves) if (r < 0.7 or depth == 0) else rand_comp(depth - 1)
        return d

    def comp():
        c = rand_comp()
        if rnd.random() < 0.85:
            c["type"] = rnd.choice([T1, T2])
        return c

    def rand_file():
        f = {}
        if rnd.random() < 0.5:
            f["max_threads"] = rnd.choice([3, 7, EnvRef("VERIF_E2")])
        if rnd.random() < 0.4:
            f["logging"] = {"version": 1, "loggers": {rnd.choice(["p.q", "r"]): {"level": rnd.choice(["DEBUG", "INFO"])}}}
        if rnd.random() < 0.15:
            f["backend"] = rnd.choice(["asyncio", "trio"])
        layout = rnd.choice(["component", "services", "services", "both", "none"])
        if layout in ("component", "both"):
            f["component"] = comp()
        if layout in ("services", "both"):
            sv = {}
            for name in rnd.sample(["one", "two", "default"], rnd.choice([1, 2, 2, 3])):
                s = {}
                if rnd.random() < 0.85:
                    s["component"] = comp()
                if rnd.random() < 0.3:
                    s["max_threads"] = 9
                if rnd.random() < 0.15:
                    s["logging"] = {"loggers": {"p.q": {"level": "WARNING"}}}
                sv[name] = s if rnd.random() > 0.04 else None
            # mappings shared between sections (YAML anchors/aliases, the documented multi-service pattern): the same object
            # appears twice, so yaml.dump writes an anchor and an alias and the loader hands asphalt one shared dict
            withc = [k for k, v in sv.items() if isinstance(v, dict) and isinstance(v.get("component"), dict)]
            if len(withc) >= 2 and rnd.random() < 0.5:
                a, b = rnd.sample(withc, 2)
                shared = rand_comp(1)
                shared.setdefault("a", 1)
                sv[a]["component"]["n"] = shared
                sv[b]["component"]["n"] = shared
                f["__shared__"] = (a, b)
            f["services"] = sv
        return f

    def rand_set():
        if rnd.random() < 0.04:
            return {"noeq": True, "text": "component.a"}
        path = rnd.choice([["component", "a"], ["component", "n", "a"], ["component", "b.c"], ["logging", "loggers", "p.q", "level"],
                           ["max_threads"], ["services", "one", "component", "a"], ["component", "a", "deep"],
                           ["services", "two", "component", "n", "b.c"], ["component", "n"], ["services", "default", "component", "type"]])
        val = rnd.choice([5, "str", None, [1, 2], {"k": 1}, True, 1.5, EnvRef("VERIF_E1"), EnvRef("VERIF_E3")]) if path[-1] != "type" else rnd.choice([T1, T2])
        if isinstance(val, float):
            val = 7
        return {"path": path, "val": val, "text": key_text(path) + "=" + val_text(val)}

    cases = []
    for i in range(n):
        files = [rand_file() for _ in range(rnd.choice([1, 2, 2, 3]))]
        flag = rnd.choice(["", "", "", "one", "two", "nope"])
        sh = [f.pop("__shared__") for f in files if "__shared__" in f]
        if sh and rnd.random() < 0.7:
            # a later file overrides inside the mapping that two services share; the OTHER sharer is the one that runs
            a, b = sh[0]
            files.append({"services": {a: {"component": {"n": {rnd.choice(["a", "b.c", "zz"]): rnd.choice([7, "late", None])}}}}})
            flag = b
        sets = [rand_set() for _ in range(rnd.choice([0, 0, 1, 2, 3]))]
        if rnd.random() < 0.12:
            # the same key given twice with an overlapping key (its parent or a child) in between: overrides apply one after the other
            def mk(path, val):
                return {"path": path, "val": val, "text": key_text(path) + "=" + val_text(val)}
            child, parent = ["component", "n", "a"], ["component", "n"]
            sets = ([mk(child, 5), mk(parent, {"k": 1}), mk(child, "str")] if rnd.random() < 0.5 else
                    [mk(parent, {"k": 1}), mk(child, 5), mk(parent, {"z": 2})])
        if sh:
            # --set is applied in place to the loaded document: an override addressed into a mapping that two services share through
            # a YAML alias reaches both of them. The statement does not say which of the two readings is meant, so such overrides
            # are not generated (unspecified corner, DESIGN I.8)
            shared_names = {x for pair in sh for x in pair}
            sets = [s_ for s_ in sets if not ("path" in s_ and len(s_["path"]) >= 4 and s_["path"][0] == "services" and s_["path"][1] in shared_names
                                               and s_["path"][2:4] == ["component", "n"])]
        cases.append({"id": f"r{i}", "files": files, "sets": sets,
                      "flag": flag, "env": rnd.choice(["", "", "", "two", "default"])})
    return cases


def summarise(case):
    def show(x):
        if isinstance(x, (EnvRef, TextRef, BinRef)):
            return f"!{type(x).__name__}"
        if isinstance(x, dict):
            return {k: show(v) for k, v in x.items()}
        if isinstance(x, list):
            return [show(v) for v in x]
        return x
    return {"files": [show(f) for f in case["files"]], "sets": [s["text"] for s in case["sets"]], "service": case["flag"], "ASPHALT_SERVICE": case["env"]}


def run(tier: str, seed: int) -> core.Report:
    rep = core.Report(PROP, tier, seed)
    cfg = open(tlc.SPECS / "MC_Pipeline.cfg").read()
    if tier == "thorough":
        cfg = cfg.replace("MaxFiles = 2", "MaxFiles = 3")
    res = tlc.run("MC_Pipeline", cfg_text=cfg, workers=core.NCPU, big=True, heap="12g", timeout=3000, check=False)
    if res.invariant_violated or res.error:
        raise core.MachineryError(f"MC_Pipeline: {res.invariant_violated or res.error}\n{res.out[-1500:]}")
    rep.add_tlc(res, "MC_Pipeline: statement read as invariants of RunPipeline on the bounded family; expected outcomes exported")
    cases = from_tlc(res.printed())
    nfam = len(cases)
    if nfam * 2 != res.distinct:
        raise core.MachineryError(f"MC_Pipeline exported {nfam} cases for {res.distinct} states")
    cases += split_cases()
    nsplit = len(cases) - nfam
    rnd = random.Random(seed)
    nrand = 4000 if tier == "quick" else 60000
    cases += rand_cases(rnd, nrand)
    by_id = {c["id"]: c for c in cases}
    chunks = [cases[i:i + 400] for i in range(0, len(cases), 400)]
    recs = [r for ch in core.pmap(_run_chunk, chunks, chunks=1) for r in ch]
    odd = [r for r in recs if r["obs"]["kind"] == "odd"]
    for r in odd:
        r["obs"]["kind"] = "error" if r["obs"]["calls"] == 0 else "launch-failed"
    # a sample of the exported family is also run for real (no recorder)
    fam_launch = [c for c in cases[:nfam] if c.get("exp", {}).get("kind") in ("launch", "error")]
    rnd2 = random.Random(seed + 1)
    rnd2.shuffle(fam_launch)
    real_cases = [c for c in fam_launch if c["exp"]["kind"] == "launch"][:400 if tier == "quick" else 3000] + [c for c in fam_launch if c["exp"]["kind"] == "error"][:100]
    rchunks = [real_cases[i:i + 50] for i in range(0, len(real_cases), 50)]
    real_recs = [r for ch in core.pmap(_real_chunk, rchunks, chunks=1) for r in ch]
    for r in real_recs:
        by_id[r["id"]] = by_id[r["id"][5:]]
    recs += real_recs
    rep.extra["real_runs_without_recorder"] = len(real_recs)
    verdicts, d, g = core.validate_traces("Trace_C16", recs, chunk=3000)
    rep.states += d
    rep.transitions += max(d, g)
    rep.traces_validated = len(recs)
    rep.evaluations = len(recs)
    # spec -> code cross-check on the exported family: the observed kind must be the exported expectation's kind
    unspecified = 0
    launches = set()
    for r in recs:
        v = verdicts[r["id"]]
        c = by_id[r["id"]]
        if v["why"] == "unspecified":
            unspecified += 1
            continue
        if "exp" in c and "real" not in r and c["exp"]["kind"] != r["obs"]["kind"] and v["ok"]:
            raise core.MachineryError(f"exported expectation and batch verdict disagree on {r['id']}")
        if r["obs"]["kind"] == "launch":
            launches.add(json.dumps(r["obs"], sort_keys=True))
        if not v["ok"]:
            why = v["why"].split(":")[0]
            rep.violations.append(core.Violation(PROP, v["why"], f"C16:{why}", {"case": to_spec_case(c), "text": summarise(c)},
                                                 {"observed": r["obs"]}))
    rep.distinct_nontrivial = len(launches)
    rep.rule = (f"{nfam} command lines enumerated by TLC from MC_Pipeline (<= {2 if tier == 'quick' else 3} files from a pool of 6, <= 2 --set from a pool of 7, "
                f"--service in 4 values x ASPHALT_SERVICE in 3; exhaustive), {nsplit} override keys = all strings of length <= 5 over a,b,.,\\ "
                f"(exhaustive), {nrand} seeded random command lines; non-trivial = the command launches; distinct by what run_application was handed. "
                f"{unspecified} cases fall in the corner the statement leaves open (top-level component with services.default) and are skipped")
    rep.extra.update({"exported_family": nfam, "splitkey_cases": nsplit, "random_cases": nrand, "unspecified_skipped": unspecified,
                      "observed_launches": sum(1 for r in recs if r["obs"]["kind"] == "launch"),
                      "observed_errors": sum(1 for r in recs if r["obs"]["kind"] == "error")})
    rep.samples = [dict(summarise(by_id[r["id"]]), observed=r["obs"]["kind"]) for r in recs[nfam + nsplit + 3:nfam + nsplit + 6]]
    rep.assumptions = ["what `asphalt run` hands to run_application is observed by replacing asphalt.core._cli.run_application (as the repository's own tests do)",
                       "PyYAML parsing and click option parsing are trusted", "a top-level `component` together with services.default is unspecified and skipped"]
    return rep


def replay(scenario: dict):
    c = scenario["case"]
    case = {"id": "replay", "files": [{k: untag(v) for k, v in f.items()} for f in c["files"]], "flag": c["flag"], "env": c["env"], "sets": []}
    for s, text in zip(c["sets"], scenario["text"]["sets"]):
        s = dict(s)
        s["text"] = text
        if "val" in s:
            s["val"] = untag(s["val"])
        case["sets"].append(s)
    rec = _run_chunk([case])[0]
    verdicts, _, _ = core.validate_traces("Trace_C16", [rec])
    v = verdicts["replay"]
    return [] if v["ok"] else [core.Violation(PROP, v["why"], f"C16:{v['why'].split(':')[0]}", scenario, {"observed": rec["obs"]})]
