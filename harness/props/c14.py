"""C14 — component configuration is a layered deep merge that fully determines the tree.

Spec: Config.BuildTree / Nodes / Published. (1) TLC enumerates a bounded family of (class table with hard-coded
add_component() defaults, external configuration) pairs (MC_Tree), checks the statement as invariants of the specification
and prints (scenario, expected tree); every scenario is executed through the real start_component. (2) Seeded random
scenarios (deeper trees, nested dict kwargs, shared default dicts, all three ways of naming a type, aliases with and
without /name) are executed as well. For every execution TLC compares the observed tree, the names under which each
component's additions are visible, the configuration object after the call and the tree of a second start from the same
object with the specification (Trace_C14)."""
from __future__ import annotations

import copy
import json
import random
import sys

from .. import core, tlc, vclock
from ..tagged import tag, tagd

PROP = "C14"
sys.path.insert(0, str(core.VERIF / "harness" / "fixtures"))
FIX = "verif_c14_fixture"


def _fixture():
    import verif_c14_fixture as fx
    return fx


def tagc(x):
    """tag() extended with component classes (tagged "c")."""
    if isinstance(x, type):
        return {"t": "c", "v": x.__name__}
    if isinstance(x, dict):
        return {"t": "d", "v": {str(k): tagc(v) for k, v in x.items()}}
    if isinstance(x, (list, tuple)):
        return {"t": "l", "v": [tagc(v) for v in x]}
    return tag(x)


def untagc(x, classes, pool=None):
    t = x["t"]
    if t == "c":
        return classes[x["v"]]
    if t == "d":
        v = x["v"] if isinstance(x["v"], dict) else {}
        d = {k: untagc(y, classes, pool) for k, y in v.items()}
        if pool is not None and d and all(not isinstance(y, type) for y in d.values()):
            # equal nested default dictionaries are one shared object, like a module-level constant
            return pool.setdefault(json.dumps(x, sort_keys=True), d)
        return d
    if t == "l":
        return [untagc(y, classes, pool) for y in x["v"]]
    if t == "n":
        return None
    return x["v"]


def execute(case):
    """Run one scenario twice from the same configuration object; return the record validated by TLC."""
    import anyio
    from asphalt.core import Context, start_component

    fx = _fixture()
    scn = case["scn"]
    pool = {}
    hard = {}
    for cls, kids in scn["classes"].items():
        hard[cls] = []
        for k in kids or []:
            typ = None if k["type"]["t"] == "n" else untagc(k["type"], fx.CLASSES)
            cfg = {kk: untagc(v, fx.CLASSES, pool) for kk, v in (k["cfg"] if isinstance(k["cfg"], dict) else {}).items()}
            hard[cls].append((k["alias"], typ, cfg))
    cfg = untagc(scn["cfg"], fx.CLASSES)
    suffixes = {"default", "ex"} | {n["name"] for n in scn["names"].values() if n["name"]}
    obs = {"raised": False, "first": [], "second": [], "cfg_after": scn["cfg"]}

    async def one():
        fx.SCN["hard"], fx.SCN["nodes"], fx.SCN["ctors"] = hard, {}, []
        async with Context() as ctx:
            await start_component(fx.CLASSES[scn["root"]], cfg, timeout=None)
            nodes = []
            for path, inst in fx.SCN["nodes"].items():
                nodes.append({"path": path, "cls": type(inst).__name__, "kwargs": tagd(inst._kw),
                              "prep": sorted(ctx.get_resources(inst._tp)), "start": sorted(ctx.get_resources(inst._ts)),
                              "named": sorted(ctx.get_resources(inst._tn)),
                              "fac": sorted(n for n in suffixes if ctx.get_resource_nowait(inst._tf, n, optional=True) is not None)})
            return nodes

    async def main():
        obs["first"] = await one()
        obs["cfg_after"] = tagc(cfg)
        obs["second"] = await one()

    try:
        vclock.run(main, backend=case.get("backend", "asyncio"), seed=0)
    except Exception as e:  # noqa: BLE001
        obs["raised"] = True
        obs["exc"] = repr(e)[:200]
    return {"id": case["id"], "scn": scn, "obs": obs}


def _exec_chunk(chunk):
    return [execute(c) for c in chunk]


def rand_scenarios(rnd: random.Random, n: int):
    out = []
    classes = ["K1", "K2", "K3"]

    def leaf():
        return rnd.choice([{"t": "i", "v": rnd.randint(0, 3)}, {"t": "s", "v": "s"}, {"t": "n"}, {"t": "l", "v": [{"t": "i", "v": 1}]}, {"t": "b", "v": True}])

    def kw(depth):
        d = {}
        for k in ("a", "b.c", "n"):
            r = rnd.random()
            if r < 0.45:
                continue
            d[k] = leaf() if (r < 0.75 or depth == 0) else {"t": "d", "v": kw(depth - 1)}
        return d

    for i in range(n):
        names = {c: {"kind": c, "name": ""} for c in classes}
        for c in classes:
            names[f"{FIX}:{c}"] = {"kind": c, "name": ""}

        def alias(used):
            while True:
                k = rnd.choice(classes)
                a = k if rnd.random() < 0.4 else f"{k}/{rnd.choice(['x', 'y', 'z', 'w'])}"
                if a not in used:
                    names[a] = {"kind": k, "name": a.split("/")[1] if "/" in a else ""}
                    return a, k

        def typ_for(k):
            r = rnd.random()
            if r < 0.4:
                return {"t": "n"}
            if r < 0.6:
                return {"t": "c", "v": k}
            if r < 0.8:
                return {"t": "s", "v": k}
            return {"t": "s", "v": f"{FIX}:{k}"}

        table = {"Root": [], "K1": [], "K2": [], "K3": []}
        shared = kw(1)
        # acyclic class table: Root -> K*, K1 -> K2/K3, K2 -> K3
        allowed = {"Root": classes, "K1": ["K2", "K3"], "K2": ["K3"], "K3": []}
        for cls in table:
            used = set()
            for _ in range(rnd.choice([0, 1, 2, 2]) if allowed[cls] else 0):
                while True:
                    a, k = alias(used)
                    if k in allowed[cls]:
                        break
                used.add(a)
                cfg = kw(2)
                if rnd.random() < 0.5 and shared:
                    cfg["shared"] = {"t": "d", "v": copy.deepcopy(shared)}
                t = typ_for(k)
                table[cls].append({"alias": a, "type": t, "cfg": cfg})

        def ext_for(cls, depth):
            """external `components` for a component of class cls"""
            comps = {}
            for h in table[cls]:
                if rnd.random() < 0.6:
                    c = kw(2)
                    if "shared" in h["cfg"] and rnd.random() < 0.6:
                        c["shared"] = {"t": "d", "v": {rnd.choice(["a", "n", "q"]): leaf()}}
                    kcls = names[h["alias"]]["kind"] if h["type"]["t"] == "n" else (h["type"]["v"] if h["type"]["t"] == "c" else names[h["type"]["v"]]["kind"])
                    if depth > 0 and rnd.random() < 0.5:
                        sub = ext_for(kcls, depth - 1)
                        if sub:
                            c["components"] = {"t": "d", "v": sub}
                    comps[h["alias"]] = {"t": "d", "v": c}
            used = {h["alias"] for h in table[cls]}
            for _ in range(rnd.choice([0, 0, 1, 2])):
                a, k = alias(used)
                used.add(a)
                r = rnd.random()
                if r < 0.25:
                    comps[a] = {"t": "n"}
                else:
                    c = kw(1)
                    if rnd.random() < 0.4:
                        k2 = rnd.choice(classes)
                        c["type"] = rnd.choice([{"t": "c", "v": k2}, {"t": "s", "v": k2}, {"t": "s", "v": f"{FIX}:{k2}"}])
                        k = k2
                    if depth > 0 and rnd.random() < 0.4:
                        sub = ext_for(k, depth - 1)
                        if sub:
                            c["components"] = {"t": "d", "v": sub}
                    comps[a] = {"t": "d", "v": c}
            return comps

        cfg = kw(1)
        comps = ext_for("Root", 2)
        if comps:
            cfg["components"] = {"t": "d", "v": comps}
        out.append({"id": f"r{i}", "scn": {"classes": table, "names": names, "root": "Root", "cfg": {"t": "d", "v": cfg}}})
    return out


def _depth(scn):
    return 0


def run(tier: str, seed: int) -> core.Report:
    rep = core.Report(PROP, tier, seed)
    res = tlc.run("MC_Tree", workers=core.NCPU, big=True, heap="8g", timeout=1500, check=False)
    if res.invariant_violated or res.error:
        raise core.MachineryError(f"MC_Tree: {res.invariant_violated or res.error}\n{res.out[-1500:]}")
    rep.add_tlc(res, "MC_Tree: statement read as invariants of BuildTree on the bounded family; expected trees exported")
    fam = [{"id": f"m{i}", "scn": c["scn"], "exp": c["exp"]} for i, c in enumerate(res.printed())]
    if len(fam) * 2 != res.distinct:
        raise core.MachineryError(f"MC_Tree exported {len(fam)} scenarios for {res.distinct} states")
    rnd = random.Random(seed)
    nrand = 3000 if tier == "quick" else 60000
    cases = fam + rand_scenarios(rnd, nrand)
    if tier == "thorough":
        cases += [dict(c, id=c["id"] + "t", backend="trio") for c in fam]
    chunks = [cases[i:i + 100] for i in range(0, len(cases), 100)]
    recs = [r for ch in core.pmap(_exec_chunk, chunks, chunks=1) for r in ch]
    verdicts, d, g = core.validate_traces("Trace_C14", recs, chunk=1500)
    rep.states += d
    rep.transitions += max(d, g)
    rep.traces_validated = len(recs)
    rep.evaluations = len(recs)
    by = {c["id"]: c for c in cases}
    nontrivial = set()
    for r in recs:
        v = verdicts[r["id"]]
        c = by[r["id"]]
        if "exp" in c and not r["obs"]["raised"]:
            exp_paths = sorted(c["exp"]) if isinstance(c["exp"], dict) else sorted(n["path"] for n in c["exp"])
            if v["ok"] and sorted(n["path"] for n in r["obs"]["first"]) != exp_paths:
                raise core.MachineryError(f"exported tree and batch verdict disagree on {r['id']}")
        if len(r["obs"]["first"]) >= 3:
            nontrivial.add(json.dumps(r["scn"], sort_keys=True))
        if not v["ok"]:
            why = v["why"]
            rep.violations.append(core.Violation(PROP, why, f"C14:{why}", {"scn": r["scn"], "backend": c.get("backend", "asyncio")},
                                                 {"observed": r["obs"]}))
    rep.distinct_nontrivial = len(nontrivial)
    rep.rule = (f"{len(fam)} scenarios enumerated by TLC from MC_Tree (3 class tables x 2 root kwargs x 5x5x4x3 external options; exhaustive) and "
                f"{nrand} seeded random scenarios (class tables of depth <= 3, nested/shared default dicts, config-only children, None children, "
                "types as class / module:attr / entry point / alias); each started twice from the same configuration object; "
                "non-trivial = the tree has at least 3 components; distinct by scenario")
    rep.extra.update({"exported_family": len(fam), "random_scenarios": nrand,
                      "components_started": sum(len(r["obs"]["first"]) + len(r["obs"]["second"]) for r in recs)})
    rep.samples = [{"classes": r["scn"]["classes"], "cfg": r["scn"]["cfg"], "tree": [[n["path"], n["cls"], n["start"]] for n in r["obs"]["first"]]}
                   for r in recs[len(fam) + 2:len(fam) + 4]]
    rep.assumptions = ["component path observed through current_context().path inside start()", "entry points provided by a real dist-info directory on sys.path",
                       "a hard-coded child overridden by None, and a root configuration containing 'type', are unspecified and not generated"]
    # recorded executions: what every ComponentContext was asked to add against what it delegated to the context (Trace_CtxSuite.StepCAdd)
    from .. import plugins, suitectx
    suitectx.add_to(rep, PROP)
    # naming a type: entry-point name / module:attr reference / the object itself (specs/Plugins.tla)
    plugins.add_to(rep, PROP)
    return rep


def replay(scenario: dict):
    if "recorded" in scenario:
        from .. import suitectx
        return suitectx.replay(PROP, scenario)
    if "plugins" in scenario:
        from .. import plugins
        return plugins.replay(PROP, scenario)
    rec = execute({"id": "replay", "scn": scenario["scn"], "backend": scenario.get("backend", "asyncio")})
    verdicts, _, _ = core.validate_traces("Trace_C14", [rec])
    v = verdicts["replay"]
    return [] if v["ok"] else [core.Violation(PROP, v["why"], f"C14:{v['why']}", scenario, {"observed": rec["obs"]})]
