"""C09 — task factories: inherited context, exact handle set, teardown waits, errors kept (specs/Tf.tla + monitor P_C09)."""
from __future__ import annotations

import collections
import json
import random

from .. import core, tlc, vclock

PROP = "C09"


class Boom(Exception):
    pass


def execute(case):
    import anyio
    from anyio import CancelScope, Event, create_task_group, get_cancelled_exc_class, sleep
    from asphalt.core import Component, Context, current_context, get_resources, start_background_task_factory, start_component

    prog, sched = case["prog"], list(case["hist"])
    events = []

    def log(**e):
        events.append(e)

    RT = [type(f"R{i}", (), {}) for i in range(3)]

    async def main():
        C = get_cancelled_exc_class()
        gates, start_gates = {}, {}
        waiting = set()
        nwaiting = collections.Counter()
        st = {"factory": None, "owner": None}
        done = Event()
        cmds = anyio.create_memory_object_stream(20)
        has_handler = prog["handler"] != "none"

        def handler(exc):
            ks = []

            def leaves(x):
                if isinstance(x, BaseExceptionGroup):
                    for y in x.exceptions:
                        leaves(y)
                elif hasattr(x, "k"):
                    ks.append(x.k)
            leaves(exc)
            log(ev="handler", k=ks[0] if ks else -1, truthy=prog["handler"] == "truthy")
            return prog["handler"] == "truthy"

        if case.get("seed", 0) % 2:
            # the same handler as a callable object that is itself falsy (an empty error collector): still a handler
            class Collector(list):
                def __call__(self, exc, _f=handler):
                    return _f(exc)
            handler = Collector()

        def surf(e):
            out = []

            def walk(x):
                if isinstance(x, BaseExceptionGroup):
                    for y in x.exceptions:
                        walk(y)
                elif hasattr(x, "k"):
                    out.append(x.k)
            if e is not None:
                walk(e)
            return out

        def task_func(k, t):
            async def body():
                try:
                    g = Event()
                    gates[k] = g
                    await g.wait()
                    if t["beh"] == "raise":
                        x = Boom("bg")
                        x.k = k
                        if (case.get("seed", 0) + k) % 3 == 0:
                            # the exception escapes from the teardown of the task's own context instead of from its body: still the task's
                            # exception, still one call of the handler
                            def failing_cleanup():
                                log(ev="bg.raise", k=k, hasHandler=has_handler)
                                raise x
                            current_context().add_teardown_callback(failing_cleanup)
                            return
                        log(ev="bg.raise", k=k, hasHandler=has_handler)
                        raise x
                except C:
                    log(ev="bg.saw.cancel", k=k)
                    if t["beh"] == "slowcancel":
                        with CancelScope(shield=True):
                            await sleep(1)
                    raise
                finally:
                    log(ev="bg.end", k=k)

            def begin():
                ctx = current_context()
                vis = [i for i, T in enumerate(RT) if get_resources(T)]
                log(ev="bg.begin", k=k, vis=vis, parentok=(ctx.parent is not None and ctx.parent.parent is st["owner"]))
                if (case.get("seed", 0) + k) % 2:
                    # the task's own context gets an asynchronous teardown callback that reaches a checkpoint (cancelled there when the
                    # task is ended through its handle)
                    async def own_td():
                        await sleep(0)
                    ctx.add_teardown_callback(own_td)
            if t["via"] == "ts":
                async def func(*, task_status):
                    begin()
                    try:
                        g = Event()
                        start_gates[k] = g
                        await g.wait()
                    except C:
                        log(ev="bg.saw.cancel", k=k)
                        log(ev="bg.end", k=k)
                        raise
                    task_status.started(k)
                    await body()
            else:
                async def func():
                    begin()
                    await body()
            return func

        async def waiter(k, h):
            nwaiting[k] += 1
            waiting.add(k)
            await h.wait_finished()
            nwaiting[k] -= 1
            if nwaiting[k] == 0:
                waiting.discard(k)            # (two tasks wait for the same handle: every one of them has to be released)
            log(ev="wait.returned", k=k)

        async def do_spawn(k, tg, and_cancel=False):
            t = prog["tasks"][k - 1]
            f = st["factory"]
            log(ev="spawn", k=k)
            if t["via"] == "soon":
                h = f.start_task_soon(task_func(k, t), f"t{k}")
                if and_cancel:
                    log(ev="handle.cancel", k=k)
                    h.cancel()
            else:
                try:
                    h = await f.start_task(task_func(k, t), f"t{k}")
                except RuntimeError:
                    # the task was cancelled through its handle before it called task_status.started(): anyio reports that to the caller
                    log(ev="start_task.refused", k=k)
                    return
            if prog["waiters"]:
                tg.start_soon(waiter, k, h)
                tg.start_soon(waiter, k, h)

        async def spawn_from(k, tg, and_cancel):
            where = prog["tasks"][k - 1]["where"]
            if where == "nested":
                async with Context() as inner:
                    inner.add_resource(RT[2]())
                    await do_spawn(k, tg, and_cancel)
            else:
                await do_spawn(k, tg, and_cancel)

        async def owner(tg):
            try:
                async with Context() as ctx:
                    st["owner"] = ctx
                    if case.get("seed", 0) % 3 != 2:
                        ctx.add_resource(RT[0]())
                        log(ev="reg", id=0)
                    # else: the owning context holds nothing when the factory is started (the snapshot is empty: tasks see no resource at all)
                    if case.get("seed", 0) % 2:
                        # the factory is started by a component's start(), i.e. through the ComponentContext
                        class FactoryComponent(Component):
                            async def start(self_inner):
                                st["factory"] = await start_background_task_factory(exception_handler=handler if has_handler else None)
                        await start_component(FactoryComponent, timeout=None)
                    elif case.get("seed", 0) % 4 == 2:
                        # the method is called on the owning context while another (nested) context is the current one
                        async with Context() as elsewhere:
                            elsewhere.add_resource(RT[2]())
                            st["factory"] = await ctx.start_background_task_factory(exception_handler=handler if has_handler else None)
                    else:
                        st["factory"] = await ctx.start_background_task_factory(exception_handler=handler if has_handler else None)
                    log(ev="factory.start")
                    ctx.add_resource(RT[1]())
                    log(ev="reg", id=1)
                    try:
                        async with create_task_group() as inner_tg:
                            async for cmd in cmds[1]:
                                if cmd[0] == "leave":
                                    break
                                inner_tg.start_soon(spawn_from, cmd[1], tg, cmd[0] == "spawncancel")
                    finally:
                        log(ev="exit.begin")
                log(ev="exit.end")
                log(ev="root.exit.end", surfaced=[], hasHandler=has_handler)
            except BaseException as e:  # noqa: BLE001
                log(ev="exit.end")
                log(ev="root.exit.end", surfaced=surf(e), hasHandler=has_handler)
            finally:
                done.set()

        def snapshot():
            f = st["factory"]
            hs = sorted(int(h.name[1:]) for h in f.all_task_handles()) if f is not None else []
            log(ev="q", handles=hs, waiters=sorted(waiting))

        def handle_of(k):
            for h in st["factory"].all_task_handles():
                if h.name == f"t{k}":
                    return h
            return None

        async with create_task_group() as tg:
            tg.start_soon(owner, tg)
            await vclock.quiescent()
            snapshot()
            for step in sched:
                if done.is_set():
                    log(ev="drift", what=f"owner finished before step {step}")
                    break
                a, k = step["a"], step["k"]
                if a in ("spawn", "spawncancel"):
                    if prog["tasks"][k - 1]["where"] == "other":
                        tg.start_soon(do_spawn, k, tg, a == "spawncancel")      # from a task outside every asphalt context
                    else:
                        cmds[0].send_nowait((a, k))
                elif a == "started":
                    if k not in start_gates:
                        log(ev="drift", what=f"task {k} is not waiting to call started()")
                        break
                    start_gates.pop(k).set()
                elif a == "finish":
                    if k not in gates:
                        log(ev="drift", what=f"task {k} is not at its gate")
                        break
                    gates.pop(k).set()
                elif a == "cancel":
                    h = handle_of(k)
                    if h is None:
                        log(ev="drift", what=f"no handle for task {k}")
                        break
                    log(ev="handle.cancel", k=k)
                    h.cancel()
                elif a == "leave":
                    cmds[0].send_nowait(("leave", 0))
                await vclock.quiescent()
                await sleep(2)                       # tasks that need time after cancellation get it
                await vclock.quiescent()
                snapshot()
            # wind up
            for _ in range(6):
                if done.is_set():
                    break
                for g in list(start_gates.values()) + list(gates.values()):
                    g.set()
                start_gates.clear()
                gates.clear()
                try:
                    cmds[0].send_nowait(("leave", 0))
                except Exception:  # noqa: BLE001
                    pass
                await sleep(3)
                await vclock.quiescent()
            tg.cancel_scope.cancel()

    try:
        vclock.run(main, backend=case["backend"], seed=case.get("seed", 0), shuffle=case.get("shuffle", False), watchdog=True)
    except BaseException as e:  # noqa: BLE001
        events.append({"ev": "crash", "what": repr(e)[:200]})
    return {"id": case["id"], "events": events}


def _exec_chunk(chunk):
    return [execute(c) for c in chunk]


def run(tier: str, seed: int) -> core.Report:
    rep = core.Report(PROP, tier, seed)
    res = tlc.run("MC_Tf", workers=core.NCPU, big=True, heap="16g", timeout=3000, check=False)
    if res.error or res.invariant_violated:
        raise core.MachineryError(f"Tf.tla: {res.invariant_violated or res.error}\n{res.out[-1500:]}")
    rep.add_tlc(res, "MC_Tf (<= 2 tasks): the design satisfies the C09 monitor and WaitsForTasks; terminal (program, schedule) pairs exported")
    live = tlc.run("MC_Tf", "MC_Tf_live", workers=4, heap="4g", timeout=1200, check=False)
    if live.error or live.property_violated:
        raise core.MachineryError(f"Tf.tla liveness: {live.error or 'Ends violated'}")
    rep.add_tlc(live, "MC_Tf_live: every run ends with the owning block left (weak fairness)")
    pairs = list(res.printed())
    total = len(pairs)
    rnd = random.Random(seed)
    rnd.shuffle(pairs)
    pairs = pairs[:8000 if tier == "quick" else 120000]
    cases = []
    for i, p in enumerate(pairs):
        for be in (vclock.BACKENDS if tier == "thorough" else [vclock.BACKENDS[(i + seed) % 2]]):
            cases.append({"id": f"{i}-{be}", "prog": p["prog"], "hist": p["hist"], "backend": be, "seed": seed + i})
    chunks = [cases[i:i + 100] for i in range(0, len(cases), 100)]
    traces = [t for ch in core.pmap(_exec_chunk, chunks, chunks=1) for t in ch]
    verdicts, d, g = core.validate_traces("Trace_C09", traces, chunk=2500)
    rep.states += d
    rep.transitions += max(d, g)
    rep.traces_validated = len(traces)
    rep.evaluations = len(traces)
    by = {c["id"]: c for c in cases}
    hits = collections.Counter()
    drift = 0
    nontrivial = set()
    for t in traces:
        v = verdicts[t["id"]]
        c = by[t["id"]]
        for h in v.get("hits", []):
            hits[h] += 1
        if any(e["ev"] in ("drift", "crash") for e in t["events"]):
            drift += 1
        if len(c["prog"]["tasks"]) >= 2:
            nontrivial.add(json.dumps([c["prog"], c["hist"]], sort_keys=True))
        if not v["ok"]:
            rep.violations.append(core.Violation(PROP, v["why"], f"C09:{v['why']}", {"case": c}, {"events": t["events"][:90], "step": v["step"]}))
    need = {"spawn", "begin", "cancel", "saw-cancel", "handler-truthy", "handler-falsy", "wait-returned", "q-live", "left", "root-left"}
    if not need <= set(hits) and not rep.violations:
        raise core.MachineryError(f"vacuous: monitor clauses never exercised: {sorted(need - set(hits))}")
    rep.distinct_nontrivial = len(nontrivial)
    rep.rule = (f"all programs of <= 2 tasks (start_task / start_task_soon / start_task with task_status; spawned from the owner, a nested context holding an extra "
                f"resource, or a task outside every context; returns / raises / needs time after cancellation) x handler none/truthy/falsy x with/without wait_finished "
                f"callers x every order of spawn, started(), spawn+immediate cancel, finish, cancel and leaving the block: {total} pairs enumerated by TLC; a seeded sample "
                f"of {len(pairs)} is executed (quick: one backend each, alternating); non-trivial = two tasks; distinct by (program, schedule)")
    rep.extra.update({"pairs_enumerated_by_tlc": total, "pairs_executed": len(pairs), "monitor_hits": dict(hits), "executions_that_left_the_specification (drift)": drift})
    rep.samples = [{"prog": pairs[0]["prog"], "schedule": pairs[0]["hist"]}]
    rep.assumptions = ["events are logged by the task they describe; handles are identified by the task name", "an unhandled task exception crashes the application: only 'does not vanish' is demanded then"]
    return rep


def replay(scenario):
    t = execute(dict(scenario["case"], id="replay"))
    verdicts, _, _ = core.validate_traces("Trace_C09", [t])
    v = verdicts["replay"]
    return [] if v["ok"] else [core.Violation(PROP, v["why"], f"C09:{v['why']}", scenario, {"events": t["events"][:90]})]
