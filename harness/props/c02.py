"""C02 — decided by (1) exhaustive replay of the bounded state graph of specs/Ctx.tla against real contexts
(harness/ctxreplay.py) and (2) the race family of specs/Race.tla with the monitor specs/P_Race.tla (harness/race.py)."""
from .. import core, ctxreplay, race

PROP = "C02"


def run(tier, seed):
    rep = ctxreplay.ctx_check(PROP, tier, seed)
    return race.race_check(PROP, tier, seed, rep)


def replay(scenario):
    if "recorded" in scenario:
        from .. import suitectx
        return suitectx.replay(PROP, scenario)
    if scenario.get("kind") == "race":
        return race.replay_case(PROP, scenario)
    out = ctxreplay.ctx_replay_case(PROP, scenario)
    if out:
        what, obs, exp, got = out[0]
        return [core.Violation(PROP, f"{what} after {obs['a']} (expected {exp}, observed {got})", f"{PROP}:{what}:{obs['a']}:{obs.get('r')}", scenario)]
    rep = ctxreplay.ctx_check(PROP, "quick", scenario.get("seed", 1))
    return rep.violations[:1]
