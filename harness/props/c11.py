"""C11 — every (instance, signal attribute) pair is an independent channel: the Signals graph replay (cross-channel isolation,
TypeError for a wrong event class) plus the static rows validated by TLC (Trace_C11): identity of bound signals in several
access orders incl. a copied instance and an instance using inherited signals, attribute name and event class, UnboundSignal
for every class-level use, weak binding."""
from .. import core, sigreplay

PROP = "C11"


def static_rows(rep):
    cases = sigreplay.identity_cases()
    verdicts, d, g = core.validate_traces("Trace_C11", cases)
    rep.states += d
    rep.transitions += max(d, g)
    rep.extra["static_rows"] = {c["id"]: (verdicts[c["id"]]["why"] or "ok") for c in cases}
    for c in cases:
        v = verdicts[c["id"]]
        if not v["ok"]:
            rep.violations.append(core.Violation(PROP, v["why"], f"C11:static:{v['why']}", {"kind": "static", "case": c["id"]}, {}))


def run(tier, seed):
    rep = sigreplay.check(PROP, tier, seed)
    static_rows(rep)
    return rep


def replay(scenario):
    rep = core.Report(PROP, "quick", 1)
    if scenario.get("kind") == "static":
        static_rows(rep)
        return rep.violations[:1]
    return sigreplay.check(PROP, "quick", scenario.get("seed", 1)).violations[:1]
