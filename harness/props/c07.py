"""C07 — a failing or stalling component aborts start-up cleanly with a precise error (specs/Startup.tla + monitor P_C07)."""
import random

from .. import core, startup, tlc

PROP = "C07"


def pick(pairs, tier, seed):
    rnd = random.Random(seed)
    pairs = list(pairs)
    rnd.shuffle(pairs)
    return pairs[:12000] if tier == "quick" else pairs


def run(tier, seed):
    cfg = open(tlc.SPECS / "MC_Startup_C07.cfg").read()
    if tier == "quick":
        cfg = cfg.replace("MaxComps = 4", "MaxComps = 3")
    return startup.family_check(PROP, tier, seed, [(f"C07 family, {3 if tier == 'quick' else 4} components", cfg)], "Trace_C07",
                                {"fail-creating", "fail-preparing", "fail-starting", "raised-creating", "raised-preparing", "raised-starting", "timeout", "cancelled",
                                 "returned", "torn-down", "clock"}, pick,
                                "every tree of <= 3 (thorough: 4) components x with/without prepare()/start() x every failing (component, phase in creating/preparing/starting) or "
                                "none x timeout armed or not x every order of releasing the gates, with the clock passing the timeout at every position, enumerated by TLC; "
                                "executed on asyncio and trio (quick: a seeded sample of 12000 pairs); after start_component has finished every remaining gate is opened and "
                                "the clock advanced by twice the timeout inside the still-open context; non-trivial = at least two releases; distinct by (program, schedule)",
                                ["a tie between completion and the timeout is excluded (either outcome is legal)", "two simultaneous failures are outside the statement"])


def replay(scenario):
    return startup.replay_case(PROP, "Trace_C07", scenario)
