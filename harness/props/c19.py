"""C19 — @inject is equivalent to explicit lookups in the current context.

Spec: Ctx.Inject (= the explicit lookup GetO observed through a decorated function). Every Inject transition and every Inject
outcome that changes nothing in the bounded Ctx graphs is one call of a decorated function, made by a task whose current
context is the acted-on context; signatures cycle through a grammar (keyword-only / positional / methods / two markers;
T, Optional[T], T | None, Union, plain and nested string forward references; resource() and resource(name)). A difference is
C19 only if the real explicit lookup disagrees with the decorated call. The decoration-time rows are validated by TLC too."""
import collections
import time
import warnings

import random

from .. import core, ctxreplay, startup, tlc

PROP = "C19"


def decoration_cases():
    fx = ctxreplay._fx()
    out = []
    for row, thunk in fx.decoration_table():
        try:
            with warnings.catch_warnings():
                warnings.simplefilter("ignore")
                thunk()
            obs = "ok"
        except TypeError:
            obs = "TypeError"
        except Exception as e:  # noqa: BLE001
            obs = type(e).__name__
        out.append({"id": f"dec-{row}", "kind": "decoration", "row": row, "obs": obs})
    return out + failing_factory_cases()


def failing_factory_cases():
    """A matching factory that itself raises: the decorated call must end like the explicit lookup (for optional markers too)."""
    import anyio
    from asphalt.core import Context, ResourceNotFound, get_resource, get_resource_nowait, inject, resource
    from .. import vclock

    class Dep:
        pass

    rows = []

    async def main():
        for exc_name, exc in (("ResourceNotFound", lambda: ResourceNotFound(Dep, "default")), ("KeyError", lambda: KeyError("k"))):
            for fac_kind in ("sync", "async"):
                def sync_factory(exc=exc):
                    raise exc()

                async def async_factory(exc=exc):
                    await anyio.sleep(0)
                    raise exc()
                for fn_kind in ("sync", "async"):
                    if fn_kind == "sync" and fac_kind == "async":
                        continue
                    for opt in (False, True):
                        ann = (Dep | None) if opt else Dep
                        if fn_kind == "sync":
                            def f(*, dep=resource()):
                                return "body ran with " + type(dep).__name__
                        else:
                            async def f(*, dep=resource()):
                                return "body ran with " + type(dep).__name__
                        f.__annotations__ = {"dep": ann}
                        g = inject(f)
                        outcomes = []
                        for decorated in (True, False):
                            async with Context() as ctx:
                                ctx.add_resource_factory(sync_factory if fac_kind == "sync" else async_factory, types=[Dep])
                                try:
                                    if decorated:
                                        r = g()
                                        if hasattr(r, "__await__"):
                                            r = await r
                                    elif fn_kind == "sync":
                                        r = "body ran with " + type(get_resource_nowait(Dep, optional=opt)).__name__
                                    else:
                                        r = "body ran with " + type(await get_resource(Dep, optional=opt)).__name__
                                    outcomes.append(r)
                                except Exception as e:  # noqa: BLE001
                                    outcomes.append("raised " + type(e).__name__)
                        row = f"failing-factory:{exc_name}:{fac_kind}-factory:{fn_kind}-function:{'optional' if opt else 'required'}"
                        rows.append({"id": "diff-" + row, "kind": "differential", "row": row,
                                     "obs": "same" if outcomes[0] == outcomes[1] else f"decorated {outcomes[0]} / explicit {outcomes[1]}"})
        # @inject on top of another decorator that wraps a plain function in a coroutine function (functools.wraps): what is handed to
        # @inject is a coroutine function, so its markers are resolved with get_resource (an asynchronous factory is fine)
        import functools

        def in_a_coroutine(fn):
            @functools.wraps(fn)
            async def wrapper(*args, **kwargs):
                await anyio.sleep(0)
                return fn(*args, **kwargs)
            return wrapper

        for opt in (False, True):
            def inner(*, dep=resource()):
                return "body ran with " + type(dep).__name__
            inner.__annotations__ = {"dep": (Dep | None) if opt else Dep}
            g = inject(in_a_coroutine(inner))

            async def working_factory():
                await anyio.sleep(0)
                return Dep()
            outcomes = []
            for decorated in (True, False):
                async with Context() as ctx:
                    ctx.add_resource_factory(working_factory, types=[Dep])
                    try:
                        if decorated:
                            outcomes.append(await g())
                        else:
                            outcomes.append("body ran with " + type(await get_resource(Dep, optional=opt)).__name__)
                    except Exception as e:  # noqa: BLE001
                        outcomes.append("raised " + type(e).__name__)
            row = f"coroutine-wrapper-around-a-plain-function:{'optional' if opt else 'required'}"
            rows.append({"id": "diff-" + row, "kind": "differential", "row": row,
                         "obs": "same" if outcomes[0] == outcomes[1] else f"decorated {outcomes[0]} / explicit {outcomes[1]}"})
    vclock.run(main, backend="asyncio", seed=0)
    return rows


def run(tier, seed):
    rep = core.Report(PROP, tier, seed)
    mc = (2, 2, ["default"]) if tier == "quick" else (2, 3, ["default"])
    res = tlc.run("MC_Ctx", cfg_text=ctxreplay._cfg_text(*mc, mc=True, inj=True), workers=core.NCPU, big=True, heap="16g", timeout=3000, check=False)
    if res.error or res.invariant_violated or res.property_violated:
        raise core.MachineryError(f"Ctx.tla (Inj) violates its own properties: {res.invariant_violated or res.error}\n{res.out[-1500:]}")
    rep.add_tlc(res, f"MC_Ctx with Inject, MaxCtx={mc[0]} MaxRegs={mc[1]}: design properties on the complete step relation")
    graphs = [(2, 2, ["default"]), (2, 1, ["default", "alt"])] if tier == "quick" else [(2, 3, ["default"]), (2, 2, ["default", "alt"])]
    dumps = core.pmap(ctxreplay._dump_job, [(ctxreplay._cfg_text(a, b, nm, inj=True),) for a, b, nm in graphs], chunks=1, jobs=len(graphs))
    total = collections.Counter()
    ninj = 0
    for (a, b, nm), (g, r) in zip(graphs, dumps):
        rep.add_tlc(r, f"MC_Ctx dump with Inject MaxCtx={a} MaxRegs={b} Names={nm}")
        ctxreplay._G = g
        jobs = core.NCPU
        t0 = time.time()
        parts = core.pmap(ctxreplay._walk_part, [(i, jobs, a, nm, seed, False, True) for i in range(jobs)], chunks=1, jobs=jobs)
        ctxreplay._G = None
        ninj += sum(1 for s in g.states.values() for row in s["loops"] if row[0] == "Inject") + sum(1 for s in g.states.values() for e in s["edges"] if e[0]["a"] == "Inject")
        st = collections.Counter()
        for s_, mm in parts:
            st.update(s_)
            for (props, what, obs, exp, got, path) in mm:
                if PROP in props:
                    rep.violations.append(core.Violation(PROP, f"decorated call differs from the explicit lookup: expected {exp}, observed {got}",
                                                         f"C19:{what}:{obs.get('api')}:{obs.get('r')}:opt={obs.get('opt')}",
                                                         {"nctx": a, "names": nm, "path": path, "seed": seed, "inject": True}, {"expected": exp, "observed": got}))
                else:
                    rep.extra["differences_attributed_to_other_properties"] = rep.extra.get("differences_attributed_to_other_properties", 0) + 1
        st["walk_wall_s"] = round(time.time() - t0, 1)
        rep.extra.setdefault("replay", []).append({"graph": f"MaxCtx={a} MaxRegs={b} Names={nm} Inj", **st})
        total.update(st)
        if not rep.samples:
            k = g.order[min(len(g.order) - 1, 40)]
            rep.samples.append({"state": g.states[k]["enc"], "inject_outcomes": [r_ for r_ in g.states[k]["loops"] if r_[0] == "Inject"][:4]})
    dec = decoration_cases()
    verdicts, d, gcount = core.validate_traces("Trace_C19", dec)
    rep.states += d
    rep.transitions += max(d, gcount)
    for c in dec:
        v = verdicts[c["id"]]
        if not v["ok"]:
            rep.violations.append(core.Violation(PROP, v["why"], f"C19:{v['why']}", {"decoration": c["row"]}, {}))
    # decorated functions called inside components' start()/prepare(): the current context is a ComponentContext, whose non-optional
    # lookups wait for the resource during start-up and whose optional ones must not (Startup.tla; monitor P_C06 on the recorded traces)
    def pick(pairs, tier_, seed_):
        rnd = random.Random(seed_)
        pairs = sorted(pairs, key=lambda p: (p["fin"] != "ret", str(p["prog"]), str(p["hist"])))
        rnd.shuffle(pairs)
        gets = [p for p in pairs if any(op["k"] == "get" for sc in p["prog"]["ss"] + p["prog"]["sp"] for op in sc)]
        return gets[:2500 if tier_ == "quick" else 12000]
    cfg = open(tlc.SPECS / "MC_Startup_C06.cfg").read().replace("PrepOps <- Ops6Prep", "PrepOps <- Ops6PrepQuick")
    cfgs = [("C06 family with lookups through @inject, 3 components", cfg)]
    if tier != "quick":
        cfgs.append(("C06 give-up family with lookups through @inject", open(tlc.SPECS / "MC_Startup_C06b.cfg").read()))
    sub = startup.family_check(PROP, tier, seed, cfgs, "Trace_C06", {"found-published-before", "miss-opt", "waiting"}, pick, "", [], case_extra={"inject": True})
    if sub.violations:
        # the same pairs with explicit lookups: what fails there as well is not a difference between the decorated call and the lookup
        exp = startup.family_check(PROP, tier, seed, cfgs, "Trace_C06", set(), pick, "", [], case_extra={"inject": False})
        also = {v.sig for v in exp.violations}
        rep.extra["clauses_failing_with_explicit_lookups_too (another property's business)"] = sorted(also)
        sub.violations = [v for v in sub.violations if v.sig not in also]
    for v in sub.violations:
        v.sig = "C19:component-context:" + v.sig.split(":", 1)[1]
        v.why = "decorated call inside a component's start-up differs from the explicit lookup there: " + v.why
        v.scenario = {"startup": v.scenario}
    rep.violations += sub.violations
    rep.states += sub.states
    rep.transitions += sub.transitions
    rep.extra["tlc_runs"] += sub.extra.get("tlc_runs", [])
    rep.extra["inside_component_startup"] = {k: v for k, v in sub.extra.items() if k != "tlc_runs"} | {"executions": sub.traces_validated}
    # one decorated coroutine function called concurrently from tasks in two contexts, with lookups that really suspend (Race.tla)
    from .. import race
    tv = rep.traces_validated
    race.inject_check(PROP, tier, seed, rep, 600 if tier == "quick" else 6000)
    extra_traces = rep.traces_validated - tv
    fx = ctxreplay._fx()
    rep.traces_validated = total["tours"] + sub.traces_validated + extra_traces
    rep.evaluations = total["edges"] + total["loops"] + total["prefix_steps"] + len(dec)
    rep.distinct_nontrivial = ninj
    rep.exhaustive = total.get("unexamined_ops", 0) == 0
    rep.rule = ("every Inject transition/outcome of the bounded Ctx graphs = one call of an @inject-decorated function from a task whose current "
                "context is the acted-on context, compared with the specification's explicit lookup (result class, object identity, generation, "
                "events, projection) and, on a difference, with the real explicit lookup; distinct_nontrivial = distinct (state, inject call) pairs; "
                f"{len(fx._CACHE)} distinct decorated signatures were generated in the parent process' catalogue (workers build their own); plus (program, "
                "schedule) pairs of the Startup.tla look-up family executed with every lookup made through a decorated function called inside the "
                "component's start()/prepare(), traces validated with the P_C06 monitor")
    rep.extra["decoration_rows"] = dec
    rep.assumptions = ["signature shapes are cycled from a grammar, not enumerated per state", "current context of the caller is provided by spawning the calling task inside the context"]
    return rep


def replay(scenario):
    if "decoration" in scenario:
        dec = [c for c in decoration_cases() if c["row"] == scenario["decoration"]]
        verdicts, _, _ = core.validate_traces("Trace_C19", dec)
        return [core.Violation(PROP, v["why"], f"C19:{v['why']}", scenario) for v in verdicts.values() if not v["ok"]]
    if scenario.get("kind") == "race-inject":
        from .. import race
        t = race.execute(dict(scenario["case"], id="replay"))
        t2 = race.execute(dict(scenario["case"], id="replay-exp", inject=False))
        verdicts, _, _ = core.validate_traces("Trace_Race", [t, t2])
        vi, ve = verdicts["replay"], verdicts["replay-exp"]
        bad_i = (vi.get("whys") or []) or any(e["ev"] == "crash" for e in t["events"])
        return [core.Violation(PROP, "decorated lookups racing in two contexts differ from the explicit lookups", "C19:race", scenario)] if bad_i and not ve.get("whys") else []
    if "startup" in scenario:
        return startup.replay_case(PROP, "Trace_C06", scenario["startup"])
    rep = run("quick", scenario.get("seed", 1))
    return rep.violations[:1]
