"""C13 — decided by exhaustive replay of the bounded state graph of specs/Ctx.tla (see harness/ctxreplay.py)."""
from .. import core, ctxreplay

PROP = "C13"


def run(tier, seed):
    return ctxreplay.ctx_check(PROP, tier, seed)


def replay(scenario):
    if "recorded" in scenario:
        from .. import suitectx
        return suitectx.replay(PROP, scenario)
    # the full comparison needs the graph: re-run the recorded path for result/value differences, else re-run the graph walk
    out = ctxreplay.ctx_replay_case(PROP, scenario)
    if out:
        what, obs, exp, got = out[0]
        return [core.Violation(PROP, f"{what} after {obs['a']} (expected {exp}, observed {got})", f"{PROP}:{what}:{obs['a']}:{obs.get('r')}", scenario)]
    rep = ctxreplay.ctx_check(PROP, "quick", scenario.get("seed", 1))
    return rep.violations[:1]
