"""C12 — current_context() follows strict per-task stack discipline.

Spec: Cur.tla composed with the monitor P_C12. TLC explores every configuration of the bounded model (tasks x nesting x
contexts), proves that the design satisfies the monitor and prints every transition with a path to it; each behaviour is
executed with one real task per specification task (recursive `async with`, blocks left by return / exception / cancellation /
raising teardown, tasks spawned from inside blocks, start_component probes); current_context() of every task is sampled
after every step and the recorded trace is evaluated by TLC against the monitor (Trace_C12)."""
from __future__ import annotations

import collections
import json
import random

from .. import core, tlc, vclock

PROP = "C12"


class Boom(Exception):
    pass


def execute(case):
    import anyio
    from anyio import CancelScope, create_task_group
    from asphalt.core import Component, Context, NoCurrentContext, current_context, start_component

    hist = case["hist"]
    rnd = random.Random(case.get("seed", 0))
    events = []

    def log(**e):
        events.append(e)

    async def main():
        ctxs = {}            # id -> Context
        ids = {}             # id(Context) -> id
        inbox = {}
        started = []
        probes = {}
        premade = {}         # index of the later step -> Context made when its parent was current

        def idof(c):
            return 0 if c is None else ids.get(id(c), -1)

        def cur_id():
            try:
                return idof(current_context())
            except NoCurrentContext:
                return 0

        async with create_task_group() as tg:
            async def serve(t):
                while True:
                    cmd = await inbox[t][1].receive()
                    a = cmd["a"]
                    if a == "probe":
                        probes[t] = cur_id()
                    elif a == "leave":
                        return cmd["how"]
                    elif a == "enter":
                        await level(t, cmd)
                    elif a == "spawn":
                        start_task(cmd["u"])
                        log(ev="spawn", t=t, u=cmd["u"])
                    elif a == "comp":
                        rec = {}

                        class Probe(Component):
                            async def prepare(self):
                                before = current_context()
                                c = Context()
                                rec["prep"] = idof(c.parent)
                                async with Context() as inner:
                                    rec["inner"] = idof(inner.parent)
                                rec["restored"] = current_context() is before
                                rec["given1"] = idof(Context(current_context()).parent)

                            async def start(self):
                                rec["start"] = idof(Context().parent)
                                g = idof(Context(current_context()).parent)
                                rec["given"] = g if g == rec.get("given1") else -4
                        try:
                            await start_component(Probe, timeout=None)
                            log(ev="comp", t=t, prep=rec.get("prep", -2), start=rec.get("start", -2), inner=rec.get("inner", -2), given=rec.get("given", -2), restored=bool(rec.get("restored")))
                        except Exception as e:  # noqa: BLE001
                            log(ev="unexpected", what="start_component:" + type(e).__name__)

            async def level(t, cmd):
                p = cmd["p"]
                # an explicit parent that is a context of the task's own stack is given in one of two ways: Context(parent) now, or a
                # Context() made earlier, while that parent was the task's current context, kept aside and entered only now
                ctx = premade.pop(cmd["i"]) if cmd.get("use_premade") else (Context(ctxs[p]) if p else Context())
                cid = len(ctxs) + 1
                ctxs[cid] = ctx
                ids[id(ctx)] = cid
                how = "?"
                try:
                    with CancelScope() as scope:
                        async with ctx:
                            log(ev="enter", t=t, c=cid, explicit=bool(p), p=p, parent=idof(ctx.parent))
                            for later in cmd.get("premake", ()):
                                premade[later] = Context()
                            how = await serve(t)
                            if how == "exc":
                                raise Boom()
                            if how == "tdraise":
                                def raiser():
                                    raise Boom("teardown")
                                ctx.add_teardown_callback(raiser)
                            if how == "cancel":
                                scope.cancel()
                                await anyio.sleep(0)
                except (Boom, BaseExceptionGroup, RuntimeError):
                    pass
                log(ev="leave", t=t, how=how)

            async def worker(t):
                await serve(t)

            def start_task(t):
                inbox[t] = anyio.create_memory_object_stream(10)
                started.append(t)
                tg.start_soon(worker, t)

            async def observe():
                for t in sorted(started):
                    await inbox[t][0].send({"a": "probe"})
                await vclock.quiescent()
                for t in sorted(started):
                    log(ev="cur", t=t, obs=probes.get(t, -3))

            # plan: which explicit-parent entries use a context made earlier (same task, parent still on its stack)
            plan = [dict(step, i=i) for i, step in enumerate(hist)]
            stacks, entered_at, n = collections.defaultdict(list), {}, 0
            for i, step in enumerate(plan):
                if step["a"] == "enter":
                    n += 1
                    if step["p"] and step["p"] in stacks[step["t"]] and rnd.random() < 0.5:
                        step["use_premade"] = True
                        plan[entered_at[step["p"]]].setdefault("premake", []).append(i)
                    stacks[step["t"]].append(n)
                    entered_at[n] = i
                elif step["a"] == "leave":
                    stacks[step["t"]].pop()
            start_task(1)
            await vclock.quiescent()
            for i, step in enumerate(plan):
                cmd = dict(step)
                if cmd["a"] == "leave" and i < len(hist) - 1:
                    cmd["how"] = rnd.choice(["return", "exc", "cancel", "tdraise"])   # the state does not depend on how earlier blocks ended
                await inbox[cmd["t"]][0].send(cmd)
                await vclock.quiescent()
                await observe()
            tg.cancel_scope.cancel()

    try:
        vclock.run(main, backend=case["backend"], seed=case.get("seed", 0), shuffle=case.get("shuffle", False), watchdog=True)
    except BaseException as e:  # noqa: BLE001
        events.append({"ev": "crash", "what": repr(e)[:200]})
    return {"id": case["id"], "events": events}


def _exec_chunk(chunk):
    return [execute(c) for c in chunk]


def run(tier: str, seed: int) -> core.Report:
    rep = core.Report(PROP, tier, seed)
    cfg = open(tlc.SPECS / "MC_Cur.cfg").read()
    if tier == "thorough":
        cfg = cfg.replace("MaxCtx = 3", "MaxCtx = 4")
    res = tlc.run("MC_Cur", cfg_text=cfg, workers=core.NCPU, big=True, heap="12g", timeout=3000, check=False)
    if res.error or res.invariant_violated:
        raise core.MachineryError(f"Cur.tla: {res.invariant_violated or res.error}\n{res.out[-1500:]}")
    rep.add_tlc(res, "MC_Cur: design satisfies the C12 monitor (MonOk) and StackDiscipline; every transition exported with a path to it")
    behaviours = [p["h"] for p in res.printed()]
    if len(behaviours) != res.generated - 1:
        raise core.MachineryError(f"MC_Cur exported {len(behaviours)} behaviours for {res.generated} generated states")
    # the exported path to a transition is one of many: a block entered in a particular way (explicit parent, context made earlier)
    # is only ever the last step of its behaviour. Every behaviour that ends by entering a block is therefore also run with that block
    # left again (Leave is enabled whenever the stack is not empty, so the longer sequence is a behaviour of Cur as well).
    hows = ["return", "exc", "cancel", "tdraise"]
    behaviours += [h + [{"a": "leave", "t": h[-1]["t"], "how": hows[(seed + k) % 4]}] for k, h in enumerate(behaviours) if h and h[-1]["a"] == "enter"]
    cases = []
    for i, h in enumerate(behaviours):
        for be in vclock.BACKENDS:
            cases.append({"id": f"{i}-{be}", "hist": h, "backend": be, "seed": seed + i})
        if tier == "thorough":
            cases.append({"id": f"{i}-asyncio-s", "hist": h, "backend": "asyncio", "seed": seed + i, "shuffle": True})
    chunks = [cases[i:i + 100] for i in range(0, len(cases), 100)]
    traces = [t for ch in core.pmap(_exec_chunk, chunks, chunks=1) for t in ch]
    verdicts, d, g = core.validate_traces("Trace_C12", traces, chunk=2000)
    rep.states += d
    rep.transitions += max(d, g)
    rep.traces_validated = len(traces)
    rep.evaluations = len(traces)
    by = {c["id"]: c for c in cases}
    hits = collections.Counter()
    crashes = 0
    for t in traces:
        v = verdicts[t["id"]]
        for h in v.get("hits", []):
            hits[h] += 1
        if any(e["ev"] in ("crash", "unexpected") for e in t["events"]):
            crashes += 1
        if not v["ok"]:
            rep.violations.append(core.Violation(PROP, v["why"], f"C12:{v['why']}", {"case": by[t["id"]]}, {"events": t["events"][:60], "step": v["step"]}))
    need = {"implicit-parent", "explicit-parent", "leave-return", "leave-exc", "leave-cancel", "leave-tdraise", "spawn-inside-block", "component"}
    if not need <= set(hits) and not rep.violations:
        raise core.MachineryError(f"vacuous: monitor clauses never exercised: {sorted(need - set(hits))}")
    rep.distinct_nontrivial = len({json.dumps(h) for h in behaviours if len({s["t"] for s in h}) >= 2})
    rep.rule = (f"every transition of the bounded Cur graph ({res.distinct} configurations of <= 3 tasks, nesting <= 3) with a path to it "
                "= one behaviour (those ending with an entry also continued by leaving that block; explicit parents from the task's own stack "
                "given as Context(parent) or as a context made while that parent was current), executed on asyncio and trio with one real task per specification task; current_context() of every task observed "
                "after every step; non-trivial = behaviours involving at least two tasks; distinct by step sequence")
    rep.extra.update({"behaviours": len(behaviours), "monitor_hits": dict(hits), "executions_with_unexpected_driver_events": crashes})
    rep.samples = [behaviours[len(behaviours) // 2], behaviours[-1]]
    rep.assumptions = ["tasks are spawned with anyio task groups from inside the spawner's block", "how earlier blocks of a path ended is randomised (the model's state does not depend on it)"]
    from .. import suitectx
    suitectx.add_to(rep, PROP)
    return rep


def replay(scenario):
    if "recorded" in scenario:
        from .. import suitectx
        return suitectx.replay(PROP, scenario)
    t = execute(dict(scenario["case"], id="replay"))
    verdicts, _, _ = core.validate_traces("Trace_C12", [t])
    v = verdicts["replay"]
    return [] if v["ok"] else [core.Violation(PROP, v["why"], f"C12:{v['why']}", scenario, {"events": t["events"][:60]})]
