"""C17 — merge_config is a pure, right-biased deep merge.

Spec: Config.Merge / MergeCfg.  TLC (MC_Merge) checks the algebraic reading of the statement on every pair of the bounded
family; the real function is then called on the same family (and on deeper seeded random dictionaries) and TLC compares
every recorded (a, b, out, a_after, b_after) with the specification (Trace_C17)."""
from __future__ import annotations

import copy
import itertools
import json
import random

from .. import core, tlc
from ..tagged import tag, untag

PROP = "C17"
KEYS = ["type", "b.c"]
ALL_LEAVES = [1, None, 2, [1]]


def family(nleaves: int):
    leaves = ALL_LEAVES[:nleaves]

    def dicts(rng):
        out = []
        for r in range(len(KEYS) + 1):
            for ks in itertools.combinations(KEYS, r):
                for vals in itertools.product(rng, repeat=len(ks)):
                    out.append(dict(zip(ks, vals)))
        return out

    d0 = dicts(leaves)
    d1 = dicts(leaves + d0)
    return d1 + [None]


def rand_value(rnd: random.Random, depth: int):
    r = rnd.random()
    if depth > 0 and r < 0.45:
        return rand_dict(rnd, depth - 1)
    if r < 0.55:
        return [rand_value(rnd, 0) for _ in range(rnd.randint(0, 2))]
    if r < 0.6 and depth > 0:
        return [rand_dict(rnd, 0)]
    return rnd.choice([0, 1, 2, "x", "", None, True, False, {}])


def rand_dict(rnd: random.Random, depth: int):
    d = {}
    for k in ["type", "b.c", "b", "c", "n", ""]:
        if rnd.random() < 0.5:
            d[k] = rand_value(rnd, depth)
    return d


def call(case):
    """Execute one case against the real function; returns the record validated by TLC."""
    from asphalt.core import merge_config

    cid, a, b = case
    a0, b0 = copy.deepcopy(a), copy.deepcopy(b)
    rec = {"id": cid, "a": tag(a0), "b": tag(b0), "raised": False, "out": {"t": "n"}, "a_after": tag(a0), "b_after": tag(b0), "fresh": True}
    try:
        out = merge_config(a, b)
    except Exception as e:  # noqa: BLE001 - the call must never raise on dictionaries/None
        rec["raised"] = True
        rec["exc"] = repr(e)[:100]
        return rec
    rec["fresh"] = out is not a and out is not b
    rec["out"] = tag(out)
    rec["a_after"] = tag(a)
    rec["b_after"] = tag(b)
    return rec


def _call_chunk(chunk):
    return [call(c) for c in chunk]


def nontrivial(rec) -> bool:
    a, b = rec["a"], rec["b"]
    return a["t"] == "d" and b["t"] == "d" and bool(set(a["v"]) & set(b["v"]))


def run(tier: str, seed: int) -> core.Report:
    rep = core.Report(PROP, tier, seed)
    nl_spec = 3 if tier == "quick" else 4
    res = tlc.run("MC_Merge", cfg_text=open(tlc.SPECS / "MC_Merge.cfg").read().replace("NLeaves = 3", f"NLeaves = {nl_spec}"),
                  workers=core.NCPU, big=True, heap="12g", timeout=1500)
    if res.invariant_violated:
        raise core.MachineryError(f"specification lemma violated in MC_Merge: {res.invariant_violated}")
    rep.add_tlc(res, f"MC_Merge NLeaves={nl_spec}: lemmas of the statement on Config.Merge over all pairs")
    nl = 2 if tier == "quick" else 3
    fam = family(nl)
    cases = [(f"x{i}", a, b) for i, (a, b) in enumerate(itertools.product(fam, fam))]
    nfam = len(cases)
    rnd = random.Random(seed)
    nrand = 4000 if tier == "quick" else 100000
    for i in range(nrand):
        depth = rnd.choice([1, 2, 3, 3, 4])
        a = rand_dict(rnd, depth) if rnd.random() > 0.03 else None
        if rnd.random() < 0.6 and a:
            # overrides derived from the original so that collisions are frequent
            b = copy.deepcopy(a)
            for k in list(b):
                r = rnd.random()
                if r < 0.3:
                    del b[k]
                elif r < 0.6:
                    b[k] = rand_value(rnd, depth - 1)
                elif isinstance(b[k], dict) and b[k] and r < 0.9:
                    kk = rnd.choice(list(b[k]))
                    b[k][kk] = rand_value(rnd, 1)
        else:
            b = rand_dict(rnd, depth) if rnd.random() > 0.03 else None
        cases.append((f"r{i}", a, b))
    chunks = [cases[i:i + 2000] for i in range(0, len(cases), 2000)]
    recs = [r for ch in core.pmap(_call_chunk, chunks, chunks=1) for r in ch]
    verdicts, d, g = core.validate_traces("Trace_C17", recs, chunk=4000)
    rep.states += d
    rep.transitions += max(g, d)
    rep.extra["trace_validation"] = {"module": "Trace_C17", "cases": len(recs), "tlc_states": d}
    rep.traces_validated = len(recs)
    rep.evaluations = len(recs)
    rep.distinct_nontrivial = len({json.dumps([r["a"], r["b"]], sort_keys=True) for r in recs if nontrivial(r)})
    rep.rule = (f"all {nfam} ordered pairs of dictionaries of depth<=2 over keys {KEYS} with {nl} leaf values plus None for either argument "
                f"(exhaustive), and {nrand} seeded random pairs of depth<=4 with dict/scalar collisions, lists, empty and dotted keys; "
                "non-trivial = both arguments are dictionaries sharing at least one key; distinct by (a, b)")
    rep.exhaustive = False
    rep.extra["exhaustive_family_pairs"] = nfam
    rep.samples = [{"a": untag(r["a"]), "b": untag(r["b"]), "out": untag(r["out"])} for r in recs[nfam + 5:nfam + 8]] + \
                  [{"a": untag(r["a"]), "b": untag(r["b"]), "out": untag(r["out"])} for r in recs[200:202]]
    by = {r["id"]: r for r in recs}
    for cid, v in verdicts.items():
        if not v["ok"]:
            r = by[cid]
            rep.violations.append(core.Violation(PROP, v["why"], f"C17:{v['why']}", {"a": untag(r["a"]), "b": untag(r["b"])},
                                                 {"observed": r["out"], "a_after": r["a_after"], "b_after": r["b_after"], "exc": r.get("exc")}))
    rep.assumptions = ["TLC evaluates Config.Merge as the oracle; dictionaries are str-keyed; values compared structurally (tagged)",
                       "inputs beyond the enumerated family are sampled, not exhausted"]
    return rep


def replay(scenario: dict):
    rec = call(("replay", scenario["a"], scenario["b"]))
    verdicts, _, _ = core.validate_traces("Trace_C17", [rec])
    v = verdicts["replay"]
    return [] if v["ok"] else [core.Violation(PROP, v["why"], f"C17:{v['why']}", scenario, {"observed": rec["out"]})]
