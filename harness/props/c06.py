"""C06 — waiting for a resource during start-up has no lost or false wake-ups (specs/Startup.tla + monitor P_C06)."""
import random

from .. import core, startup, tlc

PROP = "C06"


def pick(pairs, tier, seed):
    rnd = random.Random(seed)
    ret = [p for p in pairs if p["fin"] == "ret"]
    stuck = [p for p in pairs if p["fin"] != "ret"]
    rnd.shuffle(ret)
    rnd.shuffle(stuck)
    if tier == "quick":
        # pairs in which somebody gives up are few and all executed
        gu = [p for p in pairs if any(isinstance(a, int) and a >= 100 for a in p["hist"])]
        rnd.shuffle(gu)
        return ret[:8000] + stuck[:2500] + gu[:3000]
    return ret[:150000] + stuck[:30000]


def run(tier, seed):
    cfg = open(tlc.SPECS / "MC_Startup_C06.cfg").read()
    if tier == "quick":
        cfg = cfg.replace("PrepOps <- Ops6Prep", "PrepOps <- Ops6PrepQuick")
    cfgb = open(tlc.SPECS / "MC_Startup_C06b.cfg").read()
    rep = startup.family_check(PROP, tier, seed, [("C06 family, 3 components", cfg), ("C06 give-up family (waiters with a timeout of their own), 3 components", cfgb)], "Trace_C06",
                                {"publish-res", "publish-fac", "found-published-before", "found-published-after-request", "miss-opt", "miss-nowait", "waiting", "gave-up"}, pick,
                                "trees of <= 3 components whose start() (and prepare()) perform one step out of: publish (A, m) as a resource / right after an unrelated "
                                "publication / as a sync factory / as an async factory / under two types / under the default name remapped through a `kind/m` alias; publish "
                                "same type other name; other type same name; look (A, m) up non-optionally, optionally, or outside start-up - with every order of releasing "
                                "the gates (request before / after / in the same burst as the publication), enumerated by TLC; a seeded sample of the completing pairs and of "
                                "the pairs in which a waiter must stay blocked is executed on asyncio and trio; non-trivial = at least two releases; distinct by (program, schedule)",
                                ["publication names are read back from the surrounding context (not computed by the driver)"])
    # recorded executions: what a component context was asked to publish against what it registered (types of a factory)
    from .. import suitectx
    suitectx.add_to(rep, PROP)
    return rep


def replay(scenario):
    if "recorded" in scenario:
        from .. import suitectx
        return suitectx.replay(PROP, scenario)
    return startup.replay_case(PROP, "Trace_C06", scenario)
