"""C06 — waiting for a resource during start-up has no lost or false wake-ups (specs/Startup.tla + monitor P_C06)."""
import random

from .. import core, startup, tlc

PROP = "C06"


def pick(pairs, tier, seed):
    rnd = random.Random(seed)
    ret = [p for p in pairs if p["fin"] == "ret"]
    stuck = [p for p in pairs if p["fin"] != "ret"]
    rnd.shuffle(ret)
    rnd.shuffle(stuck)
    if tier == "quick":
        return ret[:9000] + stuck[:3000]
    return ret[:150000] + stuck[:30000]


def run(tier, seed):
    cfg = open(tlc.SPECS / "MC_Startup_C06.cfg").read()
    if tier == "quick":
        cfg = cfg.replace("PrepOps <- Ops6Prep", "PrepOps <- Ops6PrepQuick")
    return startup.family_check(PROP, tier, seed, [("C06 family, 3 components", cfg)], "Trace_C06",
                                {"publish-res", "publish-fac", "found-published-before", "found-published-after-request", "miss-opt", "miss-nowait", "waiting"}, pick,
                                "trees of <= 3 components whose start() (and prepare()) perform one step out of: publish (A, m) as a resource / right after an unrelated "
                                "publication / as a sync factory / as an async factory / under two types / under the default name remapped through a `kind/m` alias; publish "
                                "same type other name; other type same name; look (A, m) up non-optionally, optionally, or outside start-up - with every order of releasing "
                                "the gates (request before / after / in the same burst as the publication), enumerated by TLC; a seeded sample of the completing pairs and of "
                                "the pairs in which a waiter must stay blocked is executed on asyncio and trio; non-trivial = at least two releases; distinct by (program, schedule)",
                                ["publication names are read back from the surrounding context (not computed by the driver)"])


def replay(scenario):
    return startup.replay_case(PROP, "Trace_C06", scenario)
