"""C08 — service tasks are stopped at teardown before anything they may depend on (specs/Svc.tla + monitor P_C08)."""
from __future__ import annotations

import collections
import json
import random

from .. import core, tlc, vclock

PROP = "C08"


class Boom(Exception):
    pass


def spawn_without_context(coro_fn):
    """start coro_fn() as a task that has NO current asphalt context (an empty contextvars.Context)"""
    import contextvars
    import sniffio
    if sniffio.current_async_library() == "asyncio":
        import asyncio
        task = asyncio.get_running_loop().create_task(coro_fn(), context=contextvars.Context())
        _keep.append(task)
    else:
        import trio
        trio.lowlevel.spawn_system_task(coro_fn, context=contextvars.Context())


_keep = []


class BaseBoom(BaseException):
    pass


def execute(case):
    import anyio
    from anyio import CancelScope, Event, create_task_group, get_cancelled_exc_class, sleep
    from asphalt.core import Context, add_teardown_callback, get_resources, start_service_task

    prog, sched = case["prog"], list(case["hist"])
    items = prog["items"]
    events = []

    def log(**e):
        events.append(e)

    RT = {i: type(f"R{i}", (), {}) for i, it in enumerate(items, start=1) if it["kind"] in ("res", "reslate")}

    async def main():
        C = get_cancelled_exc_class()
        gates = {}
        sig = {}
        selfended = []
        done = Event()
        helper = {}

        def surfaced_of(e):
            out = []

            def walk(x):
                if isinstance(x, BaseExceptionGroup):
                    for y in x.exceptions:
                        walk(y)
                elif hasattr(x, "hid"):
                    out.append(x.hid)
            walk(e)
            return out

        def svc_func(k, beh, snapshot=True):
            async def func():
                vis = [i for i, T in RT.items() if get_resources(T)]
                if snapshot:
                    log(ev="svc.snapshot", k=k, vis=vis)

                async def own_td():
                    with CancelScope(shield=True):
                        await sleep(0.2)            # the task's own context needs time to tear down
                    log(ev="svc.ctx.td", k=k)
                add_teardown_callback(own_td)
                try:
                    if beh == "forever":
                        await sleep(10 ** 9)
                    elif beh == "signalled":
                        await sig[k].wait()
                    elif beh == "slow":
                        await sig[k].wait()
                        await sleep(1)
                    elif beh == "gate":
                        g = Event()
                        gates[k] = g
                        await g.wait()
                        selfended.append(k)
                    elif beh == "crash":
                        g = Event()
                        gates[k] = g
                        await g.wait()
                        x = Boom("svc")
                        x.hid = k
                        log(ev="svc.crash", k=k, exc=k)
                        raise x
                except C:
                    log(ev="svc.saw.cancel", k=k)
                    with CancelScope(shield=True):
                        await sleep(1)               # needs time to clean up after being cancelled
                    raise
                finally:
                    log(ev="svc.body.end", k=k)
            return func

        def action_of(k, action):
            if action == "cancel":
                return "cancel"
            if action == "none":
                return None
            if action == "call_ok":
                def f():
                    log(ev="svc.action", k=k)
                    sig[k].set()
                return f
            if action == "call_async_ok":
                async def f():
                    log(ev="svc.action", k=k)
                    await sleep(0.5)
                    sig[k].set()
                if (k + case.get("seed", 0)) % 2:
                    return lambda: f()          # a plain callable that returns an awaitable (the documented lambda idiom)
                return f
            if action == "call_raise":
                def f():
                    log(ev="svc.action", k=k)
                    # whatever the callable raises - an Exception or, in every other execution, a BaseException that is none -
                    # the finalizer falls back to cancelling the task and goes on waiting for it
                    raise (BaseBoom("action") if (k + case.get("seed", 0)) % 2 else Boom("action"))
                return f
            if action == "call_async_raise":
                async def f():
                    log(ev="svc.action", k=k)
                    await sleep(0.5)
                    raise Boom("action")
                if (k + case.get("seed", 0)) % 2:
                    return lambda: f()
                return f
            raise ValueError(action)

        async def owner():
            try:
                async def block():
                    try:
                        async with Context() as ctx:
                            idx = 0
                            while idx < len(items):
                                idx += 1
                                i, it = idx, items[idx - 1]
                                if it["kind"] == "svcslow":
                                    # a slow start handshake: the function calls task_status.started() only when told to; meanwhile (from
                                    # this task) the registration that follows in the program is made; then the handshake completes
                                    hs_gate, started = Event(), Event()
                                    inner = svc_func(i, it["beh"], snapshot=False)

                                    async def slow(*, task_status, hs_gate=hs_gate, inner=inner):
                                        await hs_gate.wait()
                                        task_status.started()
                                        await inner()

                                    async def starter(i=i, slow=slow, started=started):
                                        try:
                                            await ctx.start_service_task(slow, f"svc{i}")
                                        except Exception as e:  # noqa: BLE001
                                            log(ev="unexpected", what="start_service_task:" + type(e).__name__)
                                        finally:
                                            started.set()
                                    sig[i] = Event()
                                    spawn_without_context(starter)
                                    for _ in range(3):
                                        await sleep(0)
                                    if idx < len(items) and items[idx]["kind"] == "res":
                                        idx += 1
                                        j = idx

                                        def cbj(j=j):
                                            log(ev="cb.begin", id=j)
                                        ctx.add_resource(RT[j](), teardown_callback=cbj)
                                        log(ev="reg", id=j)
                                    log(ev="svc.start", k=i, action=it["action"])
                                    hs_gate.set()
                                    await started.wait()
                                    continue
                                if it["kind"] == "res":
                                    def cb(i=i):
                                        log(ev="cb.begin", id=i)
                                    ctx.add_resource(RT[i](), teardown_callback=cb)
                                    log(ev="reg", id=i)
                                elif it["kind"] == "reslate":
                                    async def cb(i=i):
                                        # the callback starts one more service task while the owning context is being torn down
                                        log(ev="cb.begin", id=i)
                                        k = len(items) + i
                                        log(ev="svc.start", k=k, action="cancel")
                                        try:
                                            if i % 2:
                                                await ctx.start_service_task(svc_func(k, "forever"), f"late{k}")
                                            else:
                                                await start_service_task(svc_func(k, "forever"), f"late{k}", teardown_action="cancel")
                                        except Exception as e:  # noqa: BLE001
                                            log(ev="unexpected", what="late start_service_task:" + type(e).__name__)
                                    ctx.add_resource(RT[i](), teardown_callback=cb)
                                    log(ev="reg", id=i)
                                else:
                                    sig[i] = Event()
                                    log(ev="svc.start", k=i, action=it["action"])
                                    if (i + case.get("seed", 0)) % 3 == 0:
                                        # the method is called on the owning context from a task whose current context is another one (none at all)
                                        started = Event()
                                        box = []

                                        async def foreign(i=i, it=it):
                                            try:
                                                await ctx.start_service_task(svc_func(i, it["beh"]), f"svc{i}", teardown_action=action_of(i, it["action"]))
                                            except Exception as e:  # noqa: BLE001
                                                log(ev="unexpected", what="start_service_task:" + type(e).__name__)
                                            finally:
                                                started.set()
                                        spawn_without_context(foreign)
                                        await started.wait()
                                    elif i % 2:
                                        await ctx.start_service_task(svc_func(i, it["beh"]), f"svc{i}", teardown_action=action_of(i, it["action"]))
                                    else:
                                        await start_service_task(svc_func(i, it["beh"]), f"svc{i}", teardown_action=action_of(i, it["action"]))
                            g = Event()
                            gates["body"] = g
                            try:
                                await g.wait()
                            except C:
                                log(ev="exit.begin", how="cancelled", cancelled=True)
                                raise
                            if prog["ending"] == "exc":
                                log(ev="exit.begin", how="exc", cancelled=False)
                                raise Boom("blk")
                            log(ev="exit.begin", how="return", cancelled=False)
                    except BaseException as e:  # noqa: BLE001
                        log(ev="exit.end", surfaced=surfaced_of(e), selfended=list(selfended))
                        raise
                    else:
                        log(ev="exit.end", surfaced=[], selfended=list(selfended))
                if prog["nested"]:
                    async with Context():
                        await block()
                        g2 = Event()
                        gates["after"] = g2
                        await g2.wait()              # the root context stays open for a while
                else:
                    await block()
            except BaseException as e:  # noqa: BLE001
                log(ev="root.exit.end", surfaced=surfaced_of(e))
            else:
                log(ev="root.exit.end", surfaced=[])
            finally:
                done.set()

        async with create_task_group() as tg:
            helper["tg"] = tg
            tg.start_soon(owner)
            steps = [("body" if a == 0 else a) for a in sched] + ["drain"] * 14
            for step in steps:
                await vclock.quiescent()
                if done.is_set():
                    break
                if step == "drain":
                    keys = list(gates)
                    if not keys:
                        await sleep(5)               # let shielded clean-ups / asynchronous actions finish
                        continue
                    for k in keys:
                        gates.pop(k).set()
                elif step in gates:
                    gates.pop(step).set()
                else:
                    await sleep(5)
                    await vclock.quiescent()
                    if step in gates:
                        gates.pop(step).set()
                    else:
                        log(ev="drift", want=str(step))
                        break
            await vclock.quiescent()
            tg.cancel_scope.cancel()

    try:
        vclock.run(main, backend=case["backend"], seed=case.get("seed", 0), shuffle=case.get("shuffle", False), watchdog=True)
    except BaseException as e:  # noqa: BLE001
        events.append({"ev": "crash", "what": repr(e)[:200]})
    return {"id": case["id"], "events": events}


def _exec_chunk(chunk):
    return [execute(c) for c in chunk]


def run(tier: str, seed: int) -> core.Report:
    rep = core.Report(PROP, tier, seed)
    cfg = open(tlc.SPECS / "MC_Svc.cfg").read()
    res = tlc.run("MC_Svc", cfg_text=cfg, workers=core.NCPU, big=True, heap="12g", timeout=3000, check=False)
    if res.error or res.invariant_violated:
        raise core.MachineryError(f"Svc.tla: {res.invariant_violated or res.error}\n{res.out[-1500:]}")
    rep.add_tlc(res, "MC_Svc (<= 4 registrations, <= 2 service tasks): the design satisfies the C08 monitor and NoTaskLeft; terminal (program, schedule) pairs exported")
    live = tlc.run("MC_Svc", "MC_Svc_live", workers=4, heap="4g", timeout=1200, check=False)
    if live.error or live.property_violated:
        raise core.MachineryError(f"Svc.tla liveness: {live.error or 'Ends violated'}")
    rep.add_tlc(live, "MC_Svc_live: once the block is entered every run ends with the block left (weak fairness): teardown never hangs once tasks end")
    pairs = list(res.printed())
    rnd = random.Random(seed)
    if tier == "quick":
        rnd.shuffle(pairs)
        pairs = pairs[:9600]
    cases = []
    for i, p in enumerate(pairs):
        for be in (vclock.BACKENDS if tier == "thorough" else [vclock.BACKENDS[(i + seed) % 2]]):
            cases.append({"id": f"{i}-{be}", "prog": p["prog"], "hist": p["hist"], "backend": be, "seed": seed + i})
        if tier == "thorough":
            cases.append({"id": f"{i}-asyncio-s", "prog": p["prog"], "hist": p["hist"], "backend": "asyncio", "seed": seed + i, "shuffle": True})
    chunks = [cases[i:i + 100] for i in range(0, len(cases), 100)]
    traces = [t for ch in core.pmap(_exec_chunk, chunks, chunks=1) for t in ch]
    verdicts, d, g = core.validate_traces("Trace_C08", traces, chunk=2500)
    rep.states += d
    rep.transitions += max(d, g)
    rep.traces_validated = len(traces)
    rep.evaluations = len(traces)
    by = {c["id"]: c for c in cases}
    hits = collections.Counter()
    drift = 0
    nontrivial = set()
    for t in traces:
        v = verdicts[t["id"]]
        c = by[t["id"]]
        for h in v.get("hits", []):
            hits[h] += 1
        if any(e["ev"] in ("drift", "crash") for e in t["events"]):
            drift += 1
        if sum(1 for it in c["prog"]["items"] if it["kind"] == "res") >= 1:
            nontrivial.add(json.dumps([c["prog"], c["hist"]], sort_keys=True))
        if not v["ok"]:
            rep.violations.append(core.Violation(PROP, v["why"], f"C08:{v['why']}", {"case": c}, {"events": t["events"][:80], "step": v["step"]}))
    need = {"snapshot", "crash", "action-call_ok", "action-call_raise", "cancelled-cancel", "cancelled-call_raise", "cb-after-task", "left", "root-left"}
    if not need <= set(hits) and not rep.violations:
        raise core.MachineryError(f"vacuous: monitor clauses never exercised: {sorted(need - set(hits))}")
    rep.distinct_nontrivial = len(nontrivial)
    rep.rule = ("every sequence of <= 4 registrations (resources with teardown callbacks, <= 2 service tasks) x 11 (teardown action, task behaviour) pairs per task x "
                "root/nested owner x block ending x every order of 'a gated task ends or crashes' and 'the block is left', enumerated by TLC; quick executes a seeded "
                "sample of up to 9600 pairs on one backend each (alternating), thorough all pairs on asyncio, trio and shuffled asyncio; non-trivial = at least one "
                "resource callback whose order against a task matters; distinct by (program, schedule)")
    rep.extra.update({"pairs_enumerated_by_tlc": len(list(res.printed())), "monitor_hits": dict(hits), "executions_that_left_the_specification (drift)": drift})
    rep.samples = [{"prog": pairs[0]["prog"], "schedule": pairs[0]["hist"]}]
    rep.assumptions = ["tasks need (virtual) time after cancellation and for tearing down their own context", "a crash cancels the teardown itself: only 'does not vanish' is demanded then"]
    from .. import suitectx
    suitectx.add_to(rep, PROP)
    return rep


def replay(scenario):
    if "recorded" in scenario:
        from .. import suitectx
        return suitectx.replay(PROP, scenario)
    t = execute(dict(scenario["case"], id="replay"))
    verdicts, _, _ = core.validate_traces("Trace_C08", [t])
    v = verdicts["replay"]
    return [] if v["ok"] else [core.Violation(PROP, v["why"], f"C08:{v['why']}", scenario, {"events": t["events"][:80]})]
