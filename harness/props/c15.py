"""C15 — run_application: every ending tears down the root context and exits as documented (specs/Runner.tla + monitor P_C15).

TLC enumerates every program of the family (tree size x CLI / plain root x one ending: each class of run() result, run() raising,
a failure of each component in each phase, a stalling component with a start-up timeout, SIGINT/SIGTERM at every stage, a
service task crashing before / after start-up), checks the outcome table against the statement and exports the programs with
their documented outcome. Each program is executed through the real run_application, in-process, under virtual time supplied
through its public backend_options; the recorded trace is evaluated by TLC against the monitor."""
from __future__ import annotations

import collections
import json
import signal
import warnings

from .. import core, tlc, vclock

PROP = "C15"


class Boom(Exception):
    pass


class RunBoom(Exception):
    pass


class CrashBoom(Exception):
    pass


import enum


class ExitCode(enum.IntEnum):
    OK = 0
    CONFIG_ERROR = 78


RESULTS = {"none": None, "0": 0, "5": 5, "127": 127, "128": 128, "-1": -1, "str": "x", "emptystr": "", "float0": 0.0, "list": [],
           "enum0": ExitCode.OK, "enum78": ExitCode.CONFIG_ERROR, "true": True}


def execute(case):
    import anyio
    from asphalt.core import CLIApplicationComponent, Component, add_resource, add_teardown_callback, run_application, start_service_task

    prog = case["prog"]
    end = prog["end"]
    n = prog["n"]
    events = []

    def log(**e):
        events.append(e)

    def phase(c, which):
        ident = [c, which]

        def callback():
            log(ev="td", id=ident)
            if prog.get("late") and ident == [1, "prepare"]:
                # registered while the root context is being torn down (allowed); it has to run too
                late = [1, "late"]
                add_teardown_callback(lambda: log(ev="td", id=late))
                log(ev="reg", id=late, late=True)
        if which == "start" and (c + case.get("seed", 0)) % 2:
            # registered as the teardown callback of a resource published under two types (still one registration)
            marker = type(f"Res{c}", (), {})
            add_resource(marker(), f"res{c}", [marker, object], teardown_callback=callback)
        elif which == "prepare" and (c + case.get("seed", 0)) % 3 == 2:
            # a plain function that returns an awaitable which is not a coroutine ("the callback may return an awaitable"): the
            # callback has run when that awaitable has been awaited
            class Handle:
                def __await__(self):
                    callback()
                    return
                    yield

            add_teardown_callback(lambda: Handle())
        else:
            add_teardown_callback(callback)
        log(ev="reg", id=ident, late=False)

    def fails(c, ph):
        if end["kind"] == "fail2":
            return ph == "starting" and c in (2, 3)           # two siblings fail in start() at the same moment
        return end["kind"] == "fail" and end["c"] == c and end["phase"] == ph

    def stalls(c):
        return end["kind"] == "timeout" and end["c"] == c

    async def injector():
        if end["kind"] == "signal":
            await anyio.sleep(end["at"] / 2)
            signal.raise_signal(getattr(signal, end["sig"]))
            await anyio.sleep(10 ** 6)
        elif end["kind"] == "crash":
            await anyio.sleep(end["at"] / 2)
            raise CrashBoom("service task")
        else:
            # every program of the family is over long before this (virtual) moment: an application that is still running is stuck
            await anyio.sleep(60)
            log(ev="stuck")
            signal.raise_signal(signal.SIGTERM)
            await anyio.sleep(10 ** 6)

    def make_child(c):
        class Child(Component):
            def __init__(self):
                if fails(c, "creating"):
                    raise Boom("creating")

            async def prepare(self):
                phase(c, "prepare")
                await anyio.sleep(0.5)
                if fails(c, "preparing"):
                    raise Boom("preparing")
                await anyio.sleep(0.5)

            async def start(self):
                phase(c, "start")
                await anyio.sleep(0.5)
                if fails(c, "starting"):
                    raise Boom("starting")
                if stalls(c):
                    await anyio.sleep(10 ** 6)
                await anyio.sleep(0.5)
        Child.__name__ = f"Child{c}"
        return Child

    base = CLIApplicationComponent if prog["cli"] else Component

    class Root(base):
        def __init__(self):
            if fails(1, "creating"):
                raise Boom("creating")
            for c in range(2, n + 1):
                self.add_component(f"k{c}", make_child(c))

        async def prepare(self):
            self.t0 = anyio.current_time()
            phase(1, "prepare")
            await start_service_task(injector, "injector")
            await anyio.sleep(0.5)
            if fails(1, "preparing"):
                raise Boom("preparing")
            if stalls(1):
                await anyio.sleep(10 ** 6)
            await anyio.sleep(0.5)

        async def start(self):
            # children took [1,3); the root's start() covers [3,4)
            await anyio.sleep(max(0.0, 3.0 - (anyio.current_time() - self.t0)))     # keeps the timeline when there are no children
            phase(1, "start")
            await anyio.sleep(0.5)
            if fails(1, "starting"):
                raise Boom("starting")
            await anyio.sleep(0.5)

        if prog["cli"]:
            async def run(self):
                await anyio.sleep(1)
                if end["kind"] == "runraises":
                    raise RunBoom("run")
                if end["kind"] == "result":
                    return RESULTS[end["r"]]
                await anyio.sleep(10 ** 6)

    old = {s: signal.signal(s, lambda *a: None) for s in (signal.SIGINT, signal.SIGTERM)}
    try:
        with warnings.catch_warnings():
            warnings.simplefilter("ignore")
            try:
                run_application(Root, {}, backend=case["backend"], backend_options=vclock.backend_options(case["backend"], case.get("seed", 0)),
                                logging=None, start_timeout=2.5 if end["kind"] == "timeout" else 100)
                log(ev="outcome", k="return", code=0, exc="")
            except SystemExit as e:
                log(ev="outcome", k="exit", code=int(e.code) if isinstance(e.code, int) else -999, exc="")
            except BaseException as e:  # noqa: BLE001
                log(ev="outcome", k="raise", code=0, exc=type(e).__name__)
    finally:
        for s, h in old.items():
            signal.signal(s, h)
    p = dict(prog, exp=case["outcome"])
    p["exp"].setdefault("code", 0)
    p["exp"].setdefault("exc", "")
    return {"id": case["id"], "prog": p, "events": events}


def _exec_chunk(chunk):
    return [execute(c) for c in chunk]


def run(tier: str, seed: int) -> core.Report:
    rep = core.Report(PROP, tier, seed)
    res = tlc.run("MC_Runner", workers=4, heap="4g", timeout=900, check=False)
    if res.error or res.invariant_violated:
        raise core.MachineryError(f"Runner.tla: {res.invariant_violated or res.error}\n{res.out[-1500:]}")
    rep.add_tlc(res, "MC_Runner: outcome table against the statement (CodesInRange, StartupProblemsExitOne, InvalidResultsExitOne, CleanSignalAfterStartup); programs exported")
    progs = list(res.printed())
    if len(progs) * 2 != res.distinct:
        raise core.MachineryError(f"MC_Runner exported {len(progs)} programs for {res.distinct} states")
    cases = []
    for i, p in enumerate(progs):
        for be in vclock.BACKENDS:
            for rep_i in range(1 if tier == "quick" else 4):
                cases.append({"id": f"{i}-{be}-{rep_i}", "prog": p["prog"], "outcome": p["outcome"], "backend": be, "seed": seed + i + 1000 * rep_i})
    chunks = [cases[i:i + 10] for i in range(0, len(cases), 10)]
    traces = [t for ch in core.pmap(_exec_chunk, chunks, chunks=1) for t in ch]
    verdicts, d, g = core.validate_traces("Trace_C15", traces, chunk=2500)
    rep.states += d
    rep.transitions += max(d, g)
    rep.traces_validated = len(traces)
    rep.evaluations = len(traces)
    by = {c["id"]: c for c in cases}
    hits = collections.Counter()
    for t in traces:
        v = verdicts[t["id"]]
        for h in v.get("hits", []):
            hits[h] += 1
        if not v["ok"]:
            c = by[t["id"]]
            rep.violations.append(core.Violation(PROP, v["why"], f"C15:{v['why']}:{c['prog']['end']['kind']}", {"case": c}, {"events": t["events"], "step": v["step"]}))
    need = {"return-result", "exit-result", "raise-runraises", "exit-fail", "exit-fail2", "exit-timeout", "exit-signal", "return-signal", "raise-crash", "any", "callback-registered-during-teardown-ran"}
    if not need <= set(hits) and not rep.violations:
        raise core.MachineryError(f"vacuous: monitor clauses never exercised: {sorted(need - set(hits))}")
    rep.distinct_nontrivial = len({json.dumps(t["prog"], sort_keys=True) for t in traces if sum(1 for e in t["events"] if e["ev"] == "reg") >= 2})
    rep.exhaustive = True
    rep.rule = (f"all {len(progs)} programs of the family: 1-3 components x CLI/plain root x one ending out of: 13 classes of run() result (incl. IntEnum members and bool), run() raising, failure of each "
                "component in creating/preparing/starting, a stalling component with start-up timeout, SIGINT/SIGTERM at 5 moments (4 during start-up, 1 after), a service "
                "task crashing at 3 moments; each through the real run_application on asyncio and trio under virtual time; non-trivial = at least two root teardown "
                "callbacks were registered when the ending struck; distinct by program")
    rep.extra.update({"programs": len(progs), "monitor_hits": dict(hits)})
    rep.samples = [{"prog": progs[7]["prog"], "documented_outcome": progs[7]["outcome"]}, {"prog": progs[-1]["prog"], "documented_outcome": progs[-1]["outcome"]}]
    rep.assumptions = ["virtual time is injected through run_application's public backend_options; signals are raised with signal.raise_signal from a service task",
                       "a signal or crash while a CLI component's run() is in progress, and the outcome of a service-task crash during start-up, are not specified"]
    return rep


def replay(scenario):
    t = execute(dict(scenario["case"], id="replay"))
    verdicts, _, _ = core.validate_traces("Trace_C15", [t])
    v = verdicts["replay"]
    return [] if v["ok"] else [core.Violation(PROP, v["why"], f"C15:{v['why']}:{scenario['case']['prog']['end']['kind']}", scenario, {"events": t["events"]})]
