"""Executions of the real code recorded through the ASPHALT_VERIF_HOOKS=trace hook - the repository's own test suite and the
scenario programs in harness/scenarios - validated against Ctx.tla by specs/Trace_CtxSuite.tla.

This module only renames: contexts -> 1.. in creation order, types -> "T<k>", names -> "N<k>", object ids -> small integers,
exception classes -> the specification's result classes; and it classifies a call as flawed from the recorded facts about its
arguments (never from its result). Every judgement is made by TLC."""
import collections
import json
import os
import re
import subprocess
import sys

from . import core, tlc

MAX_TYPES, MAX_NAMES, MAX_CTX = 12, 16, 24
NAME_OK = re.compile(r"\w+")
_cache = {}


def record_suite():
    """Run the repository's test suite with the tracing hook on; [{test, events}] (cached per process)."""
    if "suite" in _cache:
        return _cache["suite"]
    wd = tlc.workdir()
    out = wd / "suite.json"
    env = dict(os.environ, ASPHALT_VERIF_HOOKS="trace", VERIF_TRACE_OUT=str(out), PYTHONPATH=f"{core.REPO}/src:{core.VERIF}", PYTHONDONTWRITEBYTECODE="1")
    p = subprocess.run([sys.executable, "-m", "pytest", "-q", "-p", "no:cacheprovider", "-p", "harness.pytest_trace_plugin", "--timeout=300", "tests"],
                       cwd="/repo", env=env, capture_output=True, text=True, timeout=1200)
    if not out.exists():
        raise core.MachineryError("the traced run of the repository's test suite produced no trace file:\n" + p.stdout[-800:] + p.stderr[-400:])
    _cache["suite"] = json.load(open(out))
    return _cache["suite"]


def record_scenarios():
    """Run harness/scenarios.py (programs using the public API in ways the test suite does not) with the hook on."""
    if "scen" in _cache:
        return _cache["scen"]
    wd = tlc.workdir()
    out = wd / "scen.json"
    env = dict(os.environ, ASPHALT_VERIF_HOOKS="trace", VERIF_TRACE_OUT=str(out), PYTHONPATH=f"{core.REPO}/src:{core.VERIF}", PYTHONDONTWRITEBYTECODE="1")
    p = subprocess.run([sys.executable, "-m", "harness.scenarios"], cwd=str(core.VERIF), env=env, capture_output=True, text=True, timeout=1200)
    if not out.exists():
        raise core.MachineryError("the traced run of the scenario programs produced no trace file:\n" + p.stdout[-800:] + p.stderr[-1200:])
    _cache["scen"] = json.load(open(out))
    return _cache["scen"]


RESULT = {"ok": "ok", "RuntimeError": "RuntimeError", "ResourceConflict": "ResourceConflict", "TypeError": "Invalid", "ValueError": "Invalid",
          "val": "val", "None": "None", "ResourceNotFound": "ResourceNotFound", "AsyncResourceError": "AsyncResourceError"}


def project(tid, events):
    """One recorded test -> one trace for Trace_CtxSuite (or None when it has no context operations)."""
    ctx, names, vals = {}, {}, {}
    out = []
    by_call = collections.defaultdict(list)

    def T(k):
        return f"T{k}" if 0 <= k <= MAX_TYPES else None

    def N(n):
        if n not in names:
            names[n] = f"N{len(names) + 1}"
        return names[n]

    def V(i):
        return vals.setdefault(i, len(vals) + 1)

    def D(d):
        return "<none>" if d is None else str(d)

    tasks = {}

    def W(e):
        """who and where: the task (renumbered) and its current context (a component context counts as the context it is a view of)"""
        cur = e.get("cur", -1)
        while cur in view:
            cur = view[cur]
        own = e.get("ctx")
        while own in view:
            own = view[own]
        return {"task": tasks.setdefault(e.get("task", 0), len(tasks) + 1), "cur": 0 if cur == 0 else ctx.get(cur, -1), "cc": ctx.get(own, -1)}

    for e in events:
        if e["ev"] == "res.event" and e["during"]:
            by_call[e["during"]].append(e)

    def outside(reason):
        out.append({"ev": "outside", "reason": reason})

    inner = {}
    born = [0]
    view = {}          # a component context is a view of the context it delegates to: a child created under it has that context as its parent
    for e in events:
        if e.get("within") and e["ev"] in ("add_resource", "add_factory"):
            inner.setdefault(e["within"], e)
        if e.get("within") and e["ev"] == "svc.start":
            inner.setdefault(("svc", e["within"]), e)
    for e in events:
        ev = e["ev"]
        if ev == "ctx.view":
            view[e["ctx"]] = e["of"]
            continue
        if ev in ("reg", "cb.begin", "cb.end", "res.event", "svc.start"):
            continue
        if ev == "comp.get":
            # what a lookup through a ComponentContext finally gave its caller
            if out and out[-1]["ev"] == "outside":
                break
            if e["ctx"] not in ctx or T(e["type"]) is None or not isinstance(e["name"], str):
                continue
            r = RESULT.get(e.get("r"), "other")
            out.append({"ev": "cget", "c": ctx[e["ctx"]], "t": T(e["type"]), "n": N(e["name"]), "api": e["api"], "opt": bool(e["opt"]),
                        "r": r if r in ("val", "None", "ResourceNotFound", "AsyncResourceError", "RuntimeError") else "other", "vid": V(e["vid"]) if "vid" in e else 0})
            if len(names) > MAX_NAMES:
                out[-1] = {"ev": "outside", "reason": "too-many-names"}
            continue
        if ev == "comp.svc":
            # the service task a ComponentContext was asked to start, next to what it asked the real context to start
            if out and out[-1]["ev"] == "outside":
                break
            i = inner.get(("svc", e["call"]))
            out.append({"ev": "csvc", "func": V(e["func"]), "name": str(e["name"]), "action": e["action"], "r": "ok" if e["r"] == "ok" else "other", "delegated": i is not None,
                        "in": {"func": V(i["func"]), "name": str(i["name"]), "action": i["action"], "r": "ok" if i["r"] == "ok" else "other"} if i else
                              {"func": 0, "name": "", "action": "", "r": ""}})
            continue
        if ev == "ctx.new":
            while e["parent"] in view:
                e = dict(e, parent=view[e["parent"]])
        if ev == "comp.add":
            # what a ComponentContext was asked to add, next to the call it delegated to the real context
            i = inner.get(e["call"])
            if out and out[-1]["ev"] == "outside":
                break
            ts_c = sorted({T(t) for t in (e.get("types") or []) if t != -1 and T(t)}) if e.get("fac") else []
            ts_i = sorted({T(t) for t in (i.get("types") or []) if t != -1 and T(t)}) if (i and e.get("fac")) else []
            row = {"ev": "cadd", "ts": ts_c, "ints": ts_i, "n": N(e["name"]), "isdefault": e["name"] == "default", "starting": e["state"] == "starting", "defname": N(e["default_name"]),
                   "desc": D(e["desc"]), "fac": bool(e["fac"]), "r": RESULT.get(e["r"], "other"), "delegated": i is not None, "cb": bool(e.get("cb", False)),
                   "in": {"n": N(i["name"]), "desc": D(i["desc"]), "r": RESULT.get(i["r"], "other"), "fac": i["ev"] == "add_factory", "cb": bool(i.get("cb", False))} if i else
                         {"n": "", "desc": "", "r": "", "fac": False, "cb": False}}
            out.append(row)
            continue
        if out and out[-1]["ev"] == "outside":
            break
        if ev == "ctx.new":
            if born[0] >= MAX_CTX:
                outside("too-many-contexts")
                continue
            born[0] += 1
            ctx[e["ctx"]] = born[0]          # (the address of a collected context may be used again: the new context gets a new number)
            view.pop(e["ctx"], None)
        if e["ctx"] not in ctx or (ev == "ctx.new" and e["parent"] and e["parent"] not in ctx):
            outside("context-created-before-the-recording-began")
            continue
        c = ctx[e["ctx"]]
        post = []
        bad = None
        for p in e.get("post", []):
            if p["c"] not in ctx:
                continue
            if p["st"].startswith("unreadable"):
                bad = "tables-unreadable:" + p["st"]
                break
            rows = [[T(r[0]), N(r[1]), V(r[2]), bool(r[3])] for r in p["res"]]
            frows = [[T(r[0]), N(r[1]), V(r[2])] for r in p["fac"]]
            if any(r[0] is None for r in rows + frows):
                bad = "too-many-types"
                break
            post.append({"c": ctx[p["c"]], "st": p["st"], "res": rows, "fac": frows})
        if len(names) > MAX_NAMES:
            bad = "too-many-names"
        if bad:
            outside(bad)
            continue
        evs = [{"src": ctx.get(x["src"], 0), "ts": [T(t) for t in x["types"]], "n": N(x["name"]), "desc": D(x["desc"]), "fac": bool(x["fac"])}
               for x in by_call.get(e.get("call"), [])]
        r = RESULT.get(e.get("r"), "other")
        if ev == "ctx.new":
            out.append({"ev": "new", "c": c, "p": ctx.get(e["parent"], 0), "post": post, **W(e)})
        elif ev == "ctx.enter":
            out.append({"ev": "enter", "c": c, "r": r if r in ("ok", "RuntimeError") else "other", "post": post, **W(e)})
        elif ev == "ctx.exit.begin":
            out.append({"ev": "exit.begin", "c": c})
        elif ev == "ctx.exit.end":
            out.append({"ev": "exit.end", "c": c, "r": r, "post": post, **W(e)})
        elif ev == "add_resource":
            ts = [T(t) for t in e["types"]]
            flaw = "none" if (e["types_valid"] and not e["value_none"] and e["cb_callable"] and NAME_OK.fullmatch(e["name"])) else "badname"
            if None in ts or len(set(ts)) != len(ts) and False:
                outside("too-many-types")
                continue
            out.append({"ev": "add", "c": c, "ts": ts, "n": N(e["name"]), "desc": D(e["desc"]), "flaw": flaw, "vid": V(e["vid"]),
                        "r": r if r in ("ok", "RuntimeError", "Invalid", "ResourceConflict") else "other", "evs": evs, "post": post, **W(e)})
        elif ev == "add_factory":
            tids = e["types"]
            flaw = "none" if (tids and -1 not in tids and NAME_OK.fullmatch(e["name"])) else "badname"
            ts = [T(t) for t in (tids or []) if t != -1] or ["T0"]
            if None in ts:
                outside("too-many-types")
                continue
            out.append({"ev": "addfac", "c": c, "ts": ts, "n": N(e["name"]), "desc": D(e["desc"]), "flaw": flaw, "async": bool(e["coroutinefunction"]),
                        "fid": V(e.get("fid", 0)), "r": r if r in ("ok", "RuntimeError", "Invalid", "ResourceConflict") else "other", "evs": evs, "post": post, **W(e)})
        elif ev == "get":
            t = T(e["type"])
            if t is None or not isinstance(e["name"], str):
                outside("too-many-types")
                continue
            out.append({"ev": "get", "c": c, "t": t, "n": N(e["name"]), "api": e["api"], "opt": bool(e["opt"]), "vid": V(e["vid"]) if "vid" in e else 0,
                        "r": r if r in ("val", "None", "ResourceNotFound", "AsyncResourceError", "RuntimeError") else "other", "evs": evs, "post": post, **W(e)})
        elif ev == "get_all":
            t = T(e["type"])
            if t is None:
                outside("too-many-types")
                continue
            out.append({"ev": "getall", "c": c, "t": t, "r": "ok" if r == "ok" else "other", "found": [[N(x[0]), V(x[1])] for x in e.get("found", [])], "post": post, **W(e)})
        if len(names) > MAX_NAMES:
            out[-1] = {"ev": "outside", "reason": "too-many-names"}
    if not out:
        return None
    return {"id": tid, "events": out}


PROPS = ("C01", "C02", "C03", "C04", "C06", "C08", "C12", "C13", "C14", "C18")


def verdicts():
    """{trace id: verdict} for the test suite and the scenario programs, judged by TLC (cached per process)."""
    if "verdicts" in _cache:
        return _cache["verdicts"]
    traces = []
    for t in record_suite():
        tr = project("suite:" + t["test"], t["events"])
        if tr:
            traces.append(tr)
    for t in record_scenarios():
        tr = project("scenario:" + t["test"], t["events"])
        if tr:
            traces.append(tr)
    v, d, g = core.validate_traces("Trace_CtxSuite", traces, chunk=60)
    _cache["verdicts"] = (traces, v, d, g)
    return _cache["verdicts"]


def add_to(rep: core.Report, prop: str):
    """Fold the verdicts that concern `prop` into its report."""
    traces, v, d, g = verdicts()
    rep.states += d
    rep.transitions += max(d, g)
    by = {t["id"]: t for t in traces}
    n_ok = n_out = 0
    hits = collections.Counter()
    others = collections.Counter()
    for tid, x in v.items():
        for h in x.get("hits", []):
            hits[h] += 1
        if not core.tla_bool(x["ok"]):
            p, _, clause = x["why"].partition(":")
            if prop in p.split(","):
                rep.violations.append(core.Violation(prop, f"recorded execution {tid}: {clause}", f"{prop}:recorded:{clause}",
                                                     {"recorded": tid}, {"event": by[tid]["events"][x["step"] - 1] if x["step"] else None}))
            else:
                others[x["why"]] += 1
        elif not core.tla_bool(x["live"]):
            n_out += 1
        else:
            n_ok += 1
    rep.traces_validated += len(v)
    rep.extra["recorded_executions"] = {"validated_to_the_end": n_ok, "left_the_specification (informational)": n_out,
                                        "rejected_for_another_property": dict(others), "steps_by_kind": dict(hits),
                                        "what": "the repository's test suite and harness/scenarios.py run with ASPHALT_VERIF_HOOKS=trace; every recorded "
                                                "context operation replayed as the Ctx.tla action, results, events and all contexts' tables compared (Trace_CtxSuite.tla)"}
    rep.extra["recorded_executions"]["scenario_programs_that_ended_with_an_exception (informational)"] = \
        {t["test"]: t["ended"] for t in record_scenarios() if t.get("ended", "normally") != "normally"}
    need = {"add-ok", "addfac-ok", "get-gen", "get-val", "new", "exit.end", "cadd", "csvc", "cget"}
    if not need <= set(hits) and not rep.violations:
        raise core.MachineryError(f"recorded executions never exercised: {sorted(need - set(hits))}")


def replay(prop: str, scenario: dict):
    """Record again and report the verdict of the one recorded execution named in the scenario."""
    traces, v, _, _ = verdicts()
    x = v.get(scenario["recorded"])
    if x is None or core.tla_bool(x["ok"]):
        return []
    p, _, clause = x["why"].partition(":")
    return [core.Violation(prop, f"recorded execution {scenario['recorded']}: {clause}", f"{prop}:recorded:{clause}", scenario)] if prop in p.split(",") else []
