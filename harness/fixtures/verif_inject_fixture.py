"""Functions decorated with @inject for the C19 driver. Deliberately WITHOUT `from __future__ import annotations`, so that
real annotation objects, PEP 604 unions, typing.Optional/Union and (nested) string forward references all occur."""
import typing  # noqa: F401
from typing import Optional, Union  # noqa: F401

from asphalt.core import inject, resource  # noqa: F401


class T1:
    pass


class T2:
    pass


class Other:
    pass


BODY = []
_CACHE = {}

REQ_FORMS = ["{T}", "'{T}'"]
OPT_FORMS = ["Optional[{T}]", "{T} | None", "Union[None, {T}]", "None | {T}", "'None | {T}'", "Optional['{T}']", "'{T} | None'", "'Optional[{T}]'", "Union['{T}', None]"]
LAYOUTS = ["kwonly", "poskw", "kwonly_first", "two", "method", "two_rev"]


def get(fk: str, t: str, n: str, opt: bool, form: int, layout: int):
    """-> (callable taking one pass-through value, description)"""
    forms = OPT_FORMS if opt else REQ_FORMS
    ann = forms[form % len(forms)].format(T=t)
    lay = LAYOUTS[layout % len(LAYOUTS)]
    key = (fk, t, n, opt, ann, lay)
    if key in _CACHE:
        return _CACHE[key]
    res = "resource()" if n == "default" and (form + layout) % 2 == 0 else f"resource({n!r})"
    a = "async " if fk == "async" else ""
    name = f"f{len(_CACHE)}"
    if lay == "kwonly":
        src = f"@inject\n{a}def {name}(a, *, r: {ann} = {res}):\n    BODY.append({name!r}); return (a, r, None)\ncall = lambda x: {name}(x)\n"
    elif lay == "poskw":
        src = f"@inject\n{a}def {name}(a, r: {ann} = {res}, *rest, **kw):\n    BODY.append({name!r}); return (a, r, None)\ncall = lambda x: {name}(x)\n"
    elif lay == "kwonly_first":
        src = f"@inject\n{a}def {name}(*, r: {ann} = {res}, b=2):\n    BODY.append({name!r}); return (b, r, None)\ncall = lambda x: {name}(b=x)\n"
    elif lay == "two":
        src = (f"@inject\n{a}def {name}(a, *, r: {ann} = {res}, o: Optional[Other] = resource('nope')):\n"
               f"    BODY.append({name!r}); return (a, r, o)\ncall = lambda x: {name}(x)\n")
    elif lay == "two_rev":
        # an optional marker BEFORE the one under test (whether a marker is optional is a matter of that marker alone)
        src = (f"@inject\n{a}def {name}(a, *, o: Optional[Other] = resource('nope'), r: {ann} = {res}):\n"
               f"    BODY.append({name!r}); return (a, r, o)\ncall = lambda x: {name}(x)\n")
    else:
        src = (f"class C{name}:\n    @inject\n    {a}def m(self, a, *, r: {ann} = {res}):\n        BODY.append({name!r}); return (a, r, None)\n"
               f"call = lambda x: C{name}().m(x)\n")
    ns = {}
    exec(src, globals(), ns)  # noqa: S102 - harness-generated source
    globals().update({k: v for k, v in ns.items() if k != "call"})
    _CACHE[key] = (ns["call"], f"{fk} {lay} r: {ann} = {res}")
    return _CACHE[key]


def decoration_table():
    """the decoration-time rows of C19: (row name, thunk applying @inject)"""
    def posonly():
        def f(r: T1 = resource(), /):
            return r
        return inject(f)

    def unannotated():
        def f(r=resource()):
            return r
        return inject(f)

    def uncalled():
        def f(r: T1 = resource):
            return r
        return inject(f)

    def fine():
        def f(a, *, r: T1 = resource()):
            return r
        return inject(f)

    def fine_async():
        async def f(a, *, r: Optional[T1] = resource("x")):
            return r
        return inject(f)
    return [("positional-only", posonly), ("unannotated", unannotated), ("uncalled-marker", uncalled), ("valid", fine), ("valid-async", fine_async)]
