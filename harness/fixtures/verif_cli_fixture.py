"""Root components named by the configurations that the C16 driver feeds to `asphalt run`."""
from asphalt.core import CLIApplicationComponent

LAUNCHES = []


class _Rec(CLIApplicationComponent):
    def __init__(self, **kwargs):
        LAUNCHES.append((type(self).__name__, kwargs))

    async def run(self):
        import sniffio
        from anyio import to_thread
        LAUNCHES[-1] = LAUNCHES[-1] + (int(to_thread.current_default_thread_limiter().total_tokens), sniffio.current_async_library())
        return 0


class T1(_Rec):
    pass


class T2(_Rec):
    pass
