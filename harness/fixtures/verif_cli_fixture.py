"""Root components named by the configurations that the C16 driver feeds to `asphalt run`."""
from asphalt.core import CLIApplicationComponent

LAUNCHES = []


class _Rec(CLIApplicationComponent):
    def __init__(self, **kwargs):
        LAUNCHES.append((type(self).__name__, kwargs))

    async def run(self):
        return 0


class T1(_Rec):
    pass


class T2(_Rec):
    pass
