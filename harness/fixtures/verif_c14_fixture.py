"""Component classes for the C14 driver. Their hard-coded children come from the scenario being executed (SCN), so that
the same importable classes (needed for module:attr references and entry points) can play every class table."""
from asphalt.core import Component, add_resource, add_resource_factory, current_context

SCN = {"hard": {}, "nodes": {}, "ctors": []}


class _Base(Component):
    def __init__(self, **kwargs):
        self._kw = kwargs
        SCN["ctors"].append(type(self).__name__)
        for alias, typ, cfg in SCN["hard"].get(type(self).__name__, []):
            if typ is None:
                self.add_component(alias, **cfg)
            else:
                self.add_component(alias, typ, **cfg)

    async def prepare(self):
        self._tp = type("Tprep", (), {})
        add_resource(self._tp(), types=[self._tp])

    async def start(self):
        path = current_context().path
        self._ts, self._tn, self._tf = type("Tstart", (), {}), type("Tnamed", (), {}), type("Tfac", (), {})
        add_resource(self._ts(), types=[self._ts])
        add_resource(self._tn(), "ex", types=[self._tn])
        tf = self._tf
        add_resource_factory(lambda: tf(), types=[tf])
        SCN["nodes"][path] = self


class Root(_Base):
    pass


class K1(_Base):
    pass


class K2(_Base):
    pass


class K3(_Base):
    pass


CLASSES = {"Root": Root, "K1": K1, "K2": K2, "K3": K3}
