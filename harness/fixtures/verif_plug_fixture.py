"""A small world of importable objects for the Plugins.tla family (C14: naming a type by object, module:attr reference or entry point).
The entry points of group "verif.plugins" in verif_eps-0.0.dist-info point into this module (two of them deliberately nowhere)."""


class Base:
    def __init__(self, **kwargs):
        self.kwargs = kwargs


class Good(Base):
    class Inner(Base):
        deep = 42


class Other:
    def __init__(self, **kwargs):
        self.kwargs = kwargs


def func(**kwargs):
    return kwargs


VALUE = 7

# object ids of specs/Plugins.tla -> the real objects
OBJECTS = {"Base": Base, "Good": Good, "Inner": Good.Inner, "Other": Other, "func": func, "VALUE": VALUE, "deep": Good.Inner.deep}
