"""Plumbing shared by all property checks: reports, known findings, replay files, evidence, parallel map, trace validation."""
from __future__ import annotations

import hashlib
import json
import multiprocessing as mp
import os
import re
import sys
import time
from dataclasses import dataclass, field
from pathlib import Path

VERIF = Path(__file__).resolve().parent.parent
# VERIF_REPO lets self-tests point the checks at a scratch copy of the repository (mutants); default: /repo itself.
REPO = Path(os.environ.get("VERIF_REPO", "/repo"))
sys.path.insert(0, str(REPO / "src"))
os.environ.setdefault("ASPHALT_VERIF_HOOKS", "1")
sys.dont_write_bytecode = True

from . import tlc  # noqa: E402

# asphalt logs start-up timeouts and crashed tasks at ERROR level; the harness provokes them on purpose
import logging  # noqa: E402

logging.getLogger("asphalt").addHandler(logging.NullHandler())
logging.getLogger("asphalt").propagate = False

NCPU = int(os.environ.get("VERIF_JOBS", "0")) or min(16, os.cpu_count() or 1)


class MachineryError(Exception):
    """Anything that is neither 'held' nor 'violated': exit status 2."""


@dataclass
class Violation:
    prop: str
    why: str                 # failing clause / mask field
    sig: str                 # signature used for de-duplication and for matching known findings
    scenario: dict           # enough to re-execute the case
    detail: dict = field(default_factory=dict)


@dataclass
class Report:
    prop: str
    tier: str
    seed: int
    states: int = 0
    transitions: int = 0
    traces_validated: int = 0
    evaluations: int = 0
    distinct_nontrivial: int = 0
    rule: str = ""
    samples: list = field(default_factory=list)
    violations: list = field(default_factory=list)
    extra: dict = field(default_factory=dict)
    assumptions: list = field(default_factory=list)
    exhaustive: bool = False
    t0: float = field(default_factory=time.time)

    def add_tlc(self, res: "tlc.TLCResult", label: str) -> None:
        self.states += res.distinct
        self.transitions += res.generated
        self.extra.setdefault("tlc_runs", []).append(
            {"what": label, "distinct_states": res.distinct, "states_generated": res.generated, "depth": res.depth, "wall_s": round(res.wall, 2)})


# ---------------------------------------------------------------------------------------------- known findings

def load_known() -> dict:
    p = VERIF / "known_findings.json"
    if not p.exists():
        return {"open": [], "fixed": []}
    return json.loads(p.read_text())


def match_known(v: Violation, known: dict):
    for k in known.get("open", []):
        if k["property"] == v.prop and re.fullmatch(k["sig"], v.sig):
            return k
    return None


# ---------------------------------------------------------------------------------------------- finishing a run

def finish(rep: Report) -> int:
    known = load_known()
    by_sig: dict[str, list[Violation]] = {}
    for v in rep.violations:
        by_sig.setdefault(v.sig, []).append(v)
    new = 0
    known_lines = {}
    for sig, vs in sorted(by_sig.items()):
        v = min(vs, key=lambda x: len(json.dumps(x.scenario, sort_keys=True, default=str)))
        k = match_known(v, known)
        if k is not None:
            known_lines.setdefault(k["what"], 0)
            known_lines[k["what"]] += len(vs)
            continue
        new += 1
        d = VERIF / "replays" / rep.prop
        d.mkdir(parents=True, exist_ok=True)
        body = {"property": rep.prop, "why": v.why, "sig": v.sig, "scenario": v.scenario, "detail": v.detail, "occurrences": len(vs)}
        sha = hashlib.sha1(json.dumps(body, sort_keys=True, default=str).encode()).hexdigest()[:12]
        path = d / f"{sha}.json"
        path.write_text(json.dumps(body, indent=1, default=str))
        print(f"VIOLATION property={rep.prop} replay={path}")
        print(f"  clause: {v.why}   signature: {sig}   occurrences: {len(vs)}")
    for what, n in known_lines.items():
        print(f"KNOWN-FINDING: property={rep.prop} {what} ({n} occurrences in this run)")
    write_evidence(rep, new, sum(known_lines.values()))
    print(f"{rep.prop} {rep.tier}: states={rep.states} transitions={rep.transitions} impl_traces={rep.traces_validated} "
          f"evaluations={rep.evaluations} nontrivial={rep.distinct_nontrivial} violations={new} wall={time.time() - rep.t0:.1f}s")
    return 1 if new else 0


def write_evidence(rep: Report, new_violations: int, known_occurrences: int) -> None:
    cov = {
        "states": rep.states,
        "transitions": rep.transitions,
        "traces_validated_against_impl": rep.traces_validated,
        "evaluations": rep.evaluations,
        "distinct_nontrivial": rep.distinct_nontrivial,
        "rule": rep.rule,
        "samples": rep.samples[:5] if rep.samples else [],
        "exhaustive": rep.exhaustive,
        "known_finding_occurrences": known_occurrences,
    }
    cov.update(rep.extra)
    ev = {
        "property_id": rep.prop,
        "tier": rep.tier,
        "seed": rep.seed,
        "level": "model_checking",
        "coverage": cov,
        "assumptions": rep.assumptions,
        "wall_s": round(time.time() - rep.t0, 2),
        "violations": new_violations,
    }
    # runs against a scratch copy (self-tests with VERIF_REPO) must not overwrite the evidence of the real tree
    d = VERIF / "evidence" if ("VERIF_REPO" not in os.environ and rep.prop != "selftest") else tlc.WORK.parent / "evidence_scratch"
    d.mkdir(parents=True, exist_ok=True)
    (d / f"{rep.prop}.json").write_text(json.dumps(ev, indent=1, default=str) + "\n")


# ---------------------------------------------------------------------------------------------- parallel helpers

def _init_worker():
    import signal
    signal.signal(signal.SIGINT, signal.SIG_IGN)


def pmap(fn, items, chunks: int | None = None, jobs: int | None = None):
    """Map fn over items in forked worker processes, preserving order. fn must be a module-level function."""
    items = list(items)
    jobs = jobs or NCPU
    if jobs <= 1 or len(items) < 2:
        return [fn(x) for x in items]
    ctx = mp.get_context("fork")
    with ctx.Pool(jobs, initializer=_init_worker) as pool:
        cs = chunks or max(1, len(items) // (jobs * 8))
        return pool.map(fn, items, chunksize=cs)


# ---------------------------------------------------------------------------------------------- batch trace validation

def _validate_chunk(args):
    module, chunk, idx = args
    wd = tlc.workdir()
    try:
        f = wd / "traces.json"
        f.write_text(json.dumps(chunk))
        res = tlc.run(module, workers=1, env={"TRACE_FILE": str(f)}, timeout=1800, heap="3g")
        ends = {}
        for t in res.printed():
            if isinstance(t, dict) and "end" in t:
                ends[t["end"]] = t
        return ends, res.distinct, res.generated
    finally:
        tlc.cleanup(wd)


def validate_traces(module: str, traces: list[dict], chunk: int = 1500):
    """Evaluate a TLA+ monitor (specs/<module>.tla, a Trace_* module) over recorded traces with TLC.

    Returns ({trace id: {ok, step, why, hits}}, distinct states, states generated)."""
    if not traces:
        return {}, 0, 0
    chunks = [(module, traces[i:i + chunk], i) for i in range(0, len(traces), chunk)]
    results = pmap(_validate_chunk, chunks, chunks=1, jobs=min(NCPU, len(chunks))) if len(chunks) > 1 else [_validate_chunk(chunks[0])]
    ends, d, g = {}, 0, 0
    for e, dd, gg in results:
        ends.update(e)
        d += dd
        g += gg
    missing = [t["id"] for t in traces if t["id"] not in ends]
    if missing:
        raise MachineryError(f"{module}: TLC returned no verdict for {len(missing)} traces, e.g. {missing[:3]}")
    return ends, d, g


def tla_bool(x) -> bool:
    return x is True or x == "TRUE"
