"""Scenario programs: the public API used in ways the repository's tests do not, run with the tracing hook on; what they do
is judged from the recorded trace (Trace_CtxSuite.tla), not by assertions here."""
import json
import os
import sys

import anyio

SCENARIOS = []


def scenario(f):
    SCENARIOS.append(f)
    return f



class A:
    pass


class B(A):
    pass


class C:
    pass


class D:
    pass


class FalsyCallable(list):
    """an (empty) collection of clean-up actions that is itself callable"""
    def __call__(self):
        for f in self:
            f()


def _make_c(_n):
    return C()


class E1:
    pass


class E2:
    pass


def _make_union() -> "E1 | E2":
    return E1()


async def _quiet(coro_or_fn, *a, **kw):
    """Call something that is expected to raise; the recorded outcome is what matters."""
    try:
        r = coro_or_fn(*a, **kw)
        if hasattr(r, "__await__"):
            r = await r
        return r
    except Exception:  # noqa: BLE001
        return None


@scenario
async def explicit_parent_and_late_entry():
    from asphalt.core import Context, add_resource, get_resource, get_resources
    async with Context() as root:
        root.add_resource(A(), "early")
        child = Context(root)            # created now, entered later
        root.add_resource(A(), "late")
        root.add_resource_factory(lambda: C(), "latefac", types=[C])
        async with child:
            await _quiet(child.get_resource, A, "early")
            await _quiet(child.get_resource, A, "late", optional=True)
            await _quiet(child.get_resource_nowait, C, "latefac", optional=True)
            child.get_resources(A)
            async with Context(root) as sibling:     # explicit parent that is not the current context
                sibling.add_resource(B(), "sib")
                add_resource(C(), "via_shortcut_in_sibling")
                child.get_resources(B)
                root.get_resources(B)
                await _quiet(root.get_resource, B, "sib", optional=True)
                grand = Context(child)
                child.add_resource(C(), "after_grand")
                async with grand:
                    grand.get_resources(C)
                    await _quiet(grand.get_resource_nowait, C, "after_grand")
            add_resource(A(), "via_shortcut_after_sibling")      # the shortcuts act on `child` again
            get_resources(A)
            await _quiet(get_resource, B, "sib", optional=True)


@scenario
async def generic_alias_types():
    from asphalt.core import Context
    async with Context() as root:
        root.add_resource([1], "ints", types=[list[int]])
        root.add_resource({"a": 1}, types=dict[str, int])
        root.add_resource_factory(lambda: [2.0], "floats", types=[list[float]])
        root.get_resources(list[int])
        await _quiet(root.get_resource, list[int], "ints")
        async with Context() as child:
            child.get_resources(list[int])
            child.get_resources(dict[str, int])
            await _quiet(child.get_resource_nowait, list[float], "floats")
            child.get_resources(list[float])
            await _quiet(child.add_resource, [3], "ints", list[int])
        root.get_resources(list[float])


@scenario
async def racing_lookups_of_one_factory():
    import anyio
    from asphalt.core import Context

    async def factory():
        await anyio.sleep(0.01)
        return B()

    async with Context() as root:
        root.add_resource_factory(factory, types=[A, B], description="shared")
        async with Context() as ctx:
            async with anyio.create_task_group() as tg:
                tg.start_soon(_quiet, ctx.get_resource, A)
                tg.start_soon(_quiet, ctx.get_resource, B)
                tg.start_soon(_quiet, ctx.get_resource, A)
            await _quiet(ctx.get_resource, A)
            await _quiet(ctx.get_resource, B)
            ctx.get_resources(A)
            ctx.get_resources(B)
            await _quiet(ctx.get_resource_nowait, B)
        async with anyio.create_task_group() as tg:
            tg.start_soon(_quiet, root.get_resource, B)
            tg.start_soon(_quiet, root.get_resource, A)
        root.get_resources(A)


@scenario
async def generation_next_to_an_occupied_key():
    from asphalt.core import Context
    async with Context() as root:
        root.add_resource(A(), types=[A])                        # occupies (A, default)
        root.add_resource_factory(lambda: B(), types=[A, B])     # a factory for A and B
        async with Context() as child:
            await _quiet(child.get_resource, B)                  # generated under B only; (A, default) stays the static one
            child.get_resources(A)
            child.get_resources(B)
            await _quiet(child.get_resource_nowait, A)
            await _quiet(child.get_resource, B)
        await _quiet(root.get_resource_nowait, B)
        root.get_resources(A)
        root.get_resources(B)


@scenario
async def abandoned_child_context():
    import gc

    import anyio
    from asphalt.core import Context
    async with Context():
        try:
            async with Context() as parent:
                async def helper():
                    child = Context()
                    await child.__aenter__()
                    child.add_resource(A())
                    # the task ends with the child still open; nothing else refers to it
                async with anyio.create_task_group() as tg:
                    tg.start_soon(helper)
                gc.collect()
                parent.get_resources(A)
        except RuntimeError:
            pass                          # "context stack corruption": the expected report


@scenario
async def block_fails_with_a_child_still_open():
    import anyio
    from asphalt.core import Context
    async with Context():
        for failure in (ValueError("request failed"), KeyError("missing")):
            kept = []
            try:
                async with Context() as parent:
                    parent.add_resource(A())

                    async def helper():
                        child = Context()
                        await child.__aenter__()
                        kept.append(child)       # still referred to, still open when the block of its parent fails
                    async with anyio.create_task_group() as tg:
                        tg.start_soon(helper)
                    raise failure
            except (RuntimeError, ValueError, KeyError):
                pass                          # "context stack corruption", chained to the failure of the block


@scenario
async def leaving_fails_then_more_contexts():
    import anyio
    from asphalt.core import Context, add_resource, get_resources

    def failing_cleanup():
        raise RuntimeError("cleanup failed")

    async def slow_cleanup():
        await anyio.sleep(0.05)

    async with Context() as root:
        root.add_resource(A(), "in_root")
        try:
            async with Context() as bad:
                bad.add_teardown_callback(failing_cleanup)
                bad.add_resource(B())
        except BaseException:  # noqa: BLE001 - the teardown error group
            pass
        get_resources(A)                                         # the shortcuts act on root again
        add_resource(C(), "after_failed_exit")
        async with Context() as nxt:                             # its parent is root, not the context that failed to close cleanly
            nxt.get_resources(C)
        with anyio.move_on_after(0.01):
            async with Context() as cancelled:                   # cancellation arrives while an async teardown callback awaits
                cancelled.add_teardown_callback(slow_cleanup)
                cancelled.add_resource(B(), "c")
                await anyio.sleep(1)
        get_resources(C)
        async with Context() as last:
            last.get_resources(A)


@scenario
async def lifecycle_misuse():
    from asphalt.core import Context
    root = Context()
    await _quiet(root.get_resource, A, optional=True)          # not entered yet
    await _quiet(root.add_resource, A())
    async with root:
        root.add_resource(A())
        await _quiet(root.__aenter__)                           # refused re-entry of an open context ...
        root.add_resource(A(), "after_refusal")                  # ... changes nothing
        await _quiet(root.get_resource, A)
        child = Context()
        await _quiet(child.get_resource, A)                     # inherited key, context never entered
        await _quiet(child.get_resource_nowait, A)
        await _quiet(child.add_resource_factory, lambda: C(), types=[C])
        async with child:
            child.add_resource(C())
        await _quiet(child.get_resource, C)                     # closed: present keys too
        await _quiet(child.get_resource, A)
        await _quiet(child.get_resource_nowait, C, optional=True)
        await _quiet(child.add_resource, C(), "again")
        await _quiet(child.__aenter__)                           # refused re-entry of a closed context
        await _quiet(child.get_resource, C)
        child.get_resources(C)
    await _quiet(root.get_resource, A)
    await _quiet(root.__aenter__)
    await _quiet(root.add_resource, A(), "x")


@scenario
async def operations_during_teardown():
    from asphalt.core import Context, add_resource, add_teardown_callback, get_resource, get_resource_nowait

    async def late():
        ctx = holder["ctx"]
        await _quiet(ctx.add_resource, A(), "during")
        await _quiet(ctx.add_resource, A(), "during_cb", teardown_callback=lambda: None)     # allowed while closing, callback included
        await _quiet(ctx.add_resource_factory, lambda: C(), "during", types=[C])
        await _quiet(ctx.get_resource, C, "fac")                # generation while closing
        await _quiet(ctx.get_resource_nowait, A, "during")
        await _quiet(ctx.__aenter__)                             # refused re-entry while closing
        await _quiet(ctx.get_resource, A, "during")
        async with Context() as inner:                           # a context opened by a teardown callback
            inner.get_resources(A)
            await _quiet(inner.get_resource, C, "fac")

    holder = {}
    async with Context() as root:
        root.add_resource_factory(lambda: C(), "fac", types=[C])
        async with Context() as ctx:
            holder["ctx"] = ctx
            add_teardown_callback(late)
            add_resource(A())
        await _quiet(ctx.get_resource, A, "during")
        root.get_resources(A)


@scenario
async def rejected_adds():
    from asphalt.core import Context
    async with Context() as root:
        root.add_resource(A(), types=[A])
        await _quiet(root.add_resource, B(), types=[B, A], teardown_callback=lambda: None)   # conflict on the second type
        await _quiet(root.add_resource, B(), "bad name")
        await _quiet(root.add_resource, None, "none")
        await _quiet(root.add_resource, B(), "cb", teardown_callback=42)
        await _quiet(root.add_resource, B(), "t", types=[B, 7])
        root.get_resources(B)
        root.add_resource_factory(lambda: A(), "f", types=[A])
        await _quiet(root.add_resource_factory, lambda: B(), "f", types=[B, A])
        await _quiet(root.add_resource_factory, lambda: B(), "bad name", types=[B])
        await _quiet(root.add_resource_factory, lambda: B(), "nohint")
        await _quiet(root.get_resource, B, "f", optional=True)
        async with Context() as child:
            await _quiet(child.add_resource, A())                 # shadowing an inherited key conflicts
            await _quiet(child.add_resource_factory, lambda: A(), "f", types=[A])
            child.add_resource(A(), "own")
            await _quiet(child.get_resource, A, "f")
            await _quiet(child.add_resource, A(), "f")            # a generated resource occupies the key
        await _quiet(root.get_resource, A, "own", optional=True)


@scenario
async def factories_that_use_the_context():
    import anyio
    from asphalt.core import Context, add_resource, current_context, get_resource, get_resource_nowait

    def make_c():
        add_resource(A(), "made_by_factory")                    # a factory publishing into the requesting context
        return C()

    async def make_b():
        c = await get_resource(C)                                # nested generation through another factory
        await anyio.sleep(0)
        return B()

    async with Context() as root:
        root.add_resource_factory(make_c, types=[C])
        root.add_resource_factory(make_b, types=[B])
        async with Context() as one:
            await _quiet(one.get_resource, B)
            one.get_resources(A)
            async with Context() as two:
                await _quiet(two.get_resource_nowait, B)         # async factory through the sync API
                await _quiet(two.get_resource_nowait, C)
                await _quiet(two.get_resource, B)
                two.get_resources(C)
            one.get_resources(C)
        root.get_resources(C)
        await _quiet(root.get_resource, C)
        await _quiet(root.get_resource, C)


@scenario
async def component_tree():
    import functools

    import anyio
    from asphalt.core import (Component, Context, add_resource, add_resource_factory, current_context, get_resource, get_resource_nowait, get_resources, start_component,
                              start_service_task)

    class Leaf(Component):
        def __init__(self, tag="leaf"):
            self.tag = tag

        async def start(self):
            add_resource(A(), description=self.tag)              # default name remapped through the alias
            add_resource_factory(lambda: C(), types=[C], description="factory of " + self.tag)
            add_resource(B(), "withcb_" + self.tag, teardown_callback=FalsyCallable())    # a callable that is falsy
            add_resource_factory(functools.partial(_make_c, 1), "partial_" + self.tag, types=[C])   # hints of a partial cannot be read
            add_resource_factory(_make_union, "union_" + self.tag)           # both types of the union annotation
            async with Context(current_context()) as explicit:   # the component's own context given explicitly as the parent
                explicit.get_resources(A)
                await _quiet(explicit.get_resource_nowait, B, "withcb_" + self.tag)
            async with Context() as inner:                       # a context opened inside start(): snapshot of the real parent, now
                inner.get_resources(A)
                await _quiet(inner.get_resource, C)
                await _quiet(inner.get_resource_nowait, A, self.tag if self.tag != "leaf" else "default")
            await get_resource(B, "shared")                      # waits for the sibling
            get_resources(A)

    class Plugin(Component):
        async def start(self):
            add_resource(D())                                    # the nested tree's own default name: "default"
            get_resources(D)

    class Provider(Component):
        async def prepare(self):
            add_resource(B(), "prepared", description="made in prepare")
            add_resource(B())                                    # default name in prepare(): not remapped

        async def start(self):
            add_resource(B(), "shared")
            await start_component(Plugin)                        # a nested tree started from start() of a component deployed as kind/name

            async def flusher():
                await anyio.sleep(0.01)
            await start_service_task(flusher, "flusher", teardown_action=None)       # to be awaited, not cancelled, at teardown
            await start_service_task(flusher, "stoppable", teardown_action=lambda: None)
            await start_service_task(flusher, "default action")
            await _quiet(get_resource, A, "first", optional=True)
            await _quiet(get_resource, C, "first", optional=True)      # optional, satisfied by a factory of a sibling (if it is there yet)
            await _quiet(get_resource, C, "first")
            get_resource_nowait(B, "prepared")

    class Root(Component):
        def __init__(self):
            self.add_component("leaf/first", Leaf, tag="first")
            self.add_component("leaf/second", Leaf, tag="second")
            self.add_component("provider/named", Provider)

        async def start(self):
            stash["component context"] = current_context()      # kept beyond its life time (below)
            get_resources(A)
            await get_resource(C, "first")
            await _quiet(get_resource_nowait, C, "second")

    stash = {}
    async with Context() as ctx:
        await start_component(Root)
        ctx.get_resources(A)
        ctx.get_resources(C)
        async with Context() as child:
            await _quiet(child.get_resource, C, "first")
            child.get_resources(C)
    old = stash["component context"]
    with anyio.move_on_after(1):
        await _quiet(old.get_resource, A, "never_published")     # the context is closed: refused, not waited for
    with anyio.move_on_after(1):
        await _quiet(old.get_resource, A, "first")
    await _quiet(old.get_resource_nowait, A, "first")
    await _quiet(old.get_resource, A, "never_published", optional=True)


def main():
    from asphalt.core import _verif
    out = []
    for f in SCENARIOS:
        for backend in ("asyncio", "trio"):
            _verif.reset()
            start = len(_verif.TRACE)
            ended = "normally"
            async def guarded(f=f):
                with anyio.fail_after(30):        # a program that hangs (because of the code under test) ends here; what it did so far is judged
                    await f()
            try:
                anyio.run(guarded, backend=backend)
            except BaseException as e:  # noqa: BLE001
                ended = f"{type(e).__name__}: {e}"[:200]
                print(f"scenario {f.__name__} ended with {ended}", file=sys.stderr)
            out.append({"test": f"{f.__name__}[{backend}]", "events": _verif.TRACE[start:], "ended": ended})
    with open(os.environ["VERIF_TRACE_OUT"], "w") as fh:
        json.dump(out, fh)


if __name__ == "__main__":
    main()
