"""Replay of the bounded state graph of specs/Signals.tla against real asphalt signals (C10, C11)."""
from __future__ import annotations

import collections
import copy
import dataclasses
import gc
import time
import warnings
import weakref
from dataclasses import dataclass
from typing import ClassVar

from . import core, graphwalk, tlc, vclock


def _classes():
    from asphalt.core import Event, Signal

    @dataclass
    class EvA(Event):
        n: int = 0

    @dataclass
    class EvB(Event):
        n: int = 0

    class Src:
        a = Signal(EvA)
        b = Signal(EvB)

    class SubSrc(Src):          # instance 2 uses the signals it inherits
        pass
    return EvA, EvB, Src, SubSrc


class Exec:
    def __init__(self, tg, variant):
        self.tg, self.variant = tg, variant
        self.EvA, self.EvB, Src, SubSrc = _classes()
        self.inst = {"1": Src(), "2": SubSrc()}
        self.workers = {}
        # the dispatching side holds on to the bound signals it obtained first; subscribers read the attribute afresh every time
        self.held = {ch: getattr(self.inst[ch[0]], ch[1]) for ch in ("1a", "1b", "2a")}

    def chan(self, ch):
        return getattr(self.inst[ch[0]], ch[1])

    def identity_broken(self):
        for ch, sig in self.held.items():
            if getattr(self.inst[ch[0]], ch[1]) is not sig:
                return ch
        return None

    def ch_of(self, ev):
        src, topic = getattr(ev, "source", None), getattr(ev, "topic", "<unset>")
        for k, i in self.inst.items():
            if src is i:
                return k + str(topic)
        return "?" + str(topic)

    async def step(self, obs):
        import anyio
        from asphalt.core import SignalQueueFull, stream_events, wait_event
        a = obs["a"]
        if a in ("Subscribe", "WaitEvent"):
            s = obs["s"]
            w = {"got": [], "result": None, "scope": anyio.CancelScope(), "cmd": anyio.create_memory_object_stream(10), "stamps_ok": True}
            self.workers[s] = w
            f = None if obs["f"] == "all" else (lambda e: e.n % 2 == 0)
            sigs = [self.chan(c) for c in obs["chs"]]

            def record(ev):
                w["got"].append([ev.n, self.ch_of(ev)])
                if not isinstance(getattr(ev, "time", None), float):
                    w["stamps_ok"] = False

            async def run_stream():
                with w["scope"]:
                    if len(sigs) == 1 and (self.variant + s) % 2:
                        cm = sigs[0].stream_events(f, max_queue_size=obs["qm"])
                    else:
                        cm = stream_events(sigs, f, max_queue_size=obs["qm"])
                    async with cm as st:
                        async for cmd in w["cmd"][1]:
                            w["result"] = "blocked"
                            with anyio.CancelScope() as w["wait_scope"]:
                                ev = await st.__anext__()
                                record(ev)
                                w["result"] = ("got", ev.n)
                            if w["wait_scope"].cancelled_caught:
                                w["result"] = "abandoned"        # gave up waiting, still inside the stream block

            async def run_wait():
                with w["scope"]:
                    if len(sigs) == 1 and (self.variant + s) % 2:
                        ev = await sigs[0].wait_event(f)
                    else:
                        ev = await wait_event(sigs, f)
                    record(ev)
            self.tg.start_soon(run_stream if a == "Subscribe" else run_wait)
            await vclock.quiescent()
            return None
        if a == "BadSubscribe":
            from asphalt.core import UnboundSignal
            sigs = [self.chan(obs["ch"]), getattr(type(self.inst[obs["ch"][0]]), "a")]       # the second one is read on the class: unbound
            res = "entered"
            try:
                with anyio.move_on_after(0.01):
                    if obs["kind"] == "wait":
                        await wait_event(sigs)
                    else:
                        async with stream_events(sigs):
                            pass
            except UnboundSignal:
                res = "UnboundSignal"
            except Exception as e:  # noqa: BLE001
                res = "raised:" + type(e).__name__
            await vclock.quiescent()
            return res
        if a == "Dispatch":
            ch = obs["ch"]
            cls = self.EvA if ch[1] == "a" else self.EvB
            if obs["wrong"]:
                cls = self.EvB if ch[1] == "a" else self.EvA
            res = "ok"
            with warnings.catch_warnings(record=True) as wl:
                warnings.simplefilter("always")
                try:
                    self.held[ch].dispatch(cls(obs.get("n", 0)))
                except TypeError:
                    res = "TypeError"
                except Exception as e:  # noqa: BLE001
                    res = "raised:" + type(e).__name__
            if obs.get("settle", True):
                await vclock.quiescent()        # otherwise the next dispatch follows at once: the receiving tasks have not run yet
            return (res, sum(1 for x in wl if issubclass(x.category, SignalQueueFull)))
        if a == "Settle":
            await vclock.quiescent()
            return None
        if a == "Consume":
            w = self.workers[obs["s"]]
            w["result"] = None
            w["cmd"][0].send_nowait("consume")
            await vclock.quiescent()
            return w["result"]
        if a == "Abandon":
            self.workers[obs["s"]]["wait_scope"].cancel()
            await vclock.quiescent()
            return None
        if a == "Leave":
            self.workers[obs["s"]]["scope"].cancel()
            await vclock.quiescent()
            return None
        raise core.MachineryError(f"unknown action {a}")

    def check(self, obs, to_enc, got):
        subs = to_enc[0]
        a = obs["a"]
        changed = self.identity_broken()
        if changed:
            # one (instance, attribute) pair has split into two channels: what is dispatched through the object obtained first no longer
            # reaches those who subscribe through a later access (C10) - and the identity clause of C11 is broken
            return "bound-signal-identity", f"{changed} always the same bound signal", f"{changed} is another object after {a}", {"C11", "C10"}
        if a == "BadSubscribe" and got != obs["r"]:
            return "subscribe-result", obs["r"], got, {"C11"}
        if a == "Dispatch":
            exp = (obs["r"], len(obs["warns"]))
            if got[0] != exp[0]:
                return "dispatch-result", exp[0], got[0], ({"C11"} if "TypeError" in (exp[0], got[0]) else {"C10"})
        for i, srec in enumerate(subs):
            w = self.workers.get(i + 1)
            real = w["got"] if w else []
            want = [list(x) for x in srec["got"]]
            if real != want:
                chs = set(srec["chs"]) if srec["chs"] else set()
                foreign = any(x[1] not in chs for x in real) or (a == "Dispatch" and obs["ch"] not in chs)
                return "delivered-sequence", (i + 1, want), (i + 1, real), ({"C11", "C10"} if foreign else {"C10"})
            if w and not w["stamps_ok"]:
                return "event-time-stamp", "float", "not a float", {"C10"}
        if a == "Dispatch" and got[1] != len(obs["warns"]):
            full_own = any(obs["ch"] in (srec["chs"] or []) for srec in subs)
            return "queue-full-warnings", len(obs["warns"]), got[1], ({"C10"} if full_own else {"C10", "C11"})
        if a == "Consume":
            exp = "blocked" if obs["r"] == "blocked" else ("got", obs["n"])
            if (tuple(got) if isinstance(got, (list, tuple)) else got) != exp:
                return "consume-result", exp, got, {"C10"}
        return None

    def props_for_unexpected(self, obs):
        return {"C10"}

    async def finish(self):
        for w in self.workers.values():
            w["scope"].cancel()


def make(tg, variant):
    return Exec(tg, variant)


def identity_cases():
    """C11's static rows: identity of bound signals, topic, event class, UnboundSignal, weak binding; each in several access orders"""
    import anyio
    from asphalt.core import Signal, UnboundSignal, stream_events, wait_event
    cases = []
    orders = [("1a", "1b", "2a", "2b"), ("1b", "1a", "2b", "2a"), ("2a", "1a", "1b", "2b"), ("2b", "2a", "1b", "1a")]
    for oi, order in enumerate(orders):
        EvA, EvB, Src, SubSrc = _classes()
        inst = {"1": Src(), "2": SubSrc()}
        first = {k: getattr(inst[k[0]], k[1]) for k in order}
        inst["3"] = copy.copy(inst["1"])           # a copy made after the attributes were first accessed
        keys = ["1a", "1b", "2a", "2b", "3a", "3b"]
        sig = {k: getattr(inst[k[0]], k[1]) for k in keys}
        rows = []
        for x in keys:
            for y in keys:
                rows.append({"i1": x[0], "a1": x[1], "i2": y[0], "a2": y[1], "same": sig[x] is sig[y]})
        stable = all(first[k] is sig[k] for k in order)
        topics = {k: sig[k]._topic if hasattr(sig[k], "_topic") else None for k in keys}
        # topic and event class through the public behaviour: dispatch an event of the attribute's class and look at the stamp
        meta = []
        for k in keys:
            cls = EvA if k[1] == "a" else EvB
            other = EvB if k[1] == "a" else EvA
            ev = cls(1)
            ok_right = True
            try:
                sig[k].dispatch(ev)
            except Exception:  # noqa: BLE001
                ok_right = False
            wrong_rejected = False
            try:
                sig[k].dispatch(other(1))
            except TypeError:
                wrong_rejected = True
            except Exception:  # noqa: BLE001
                pass
            meta.append({"i": k[0], "a": k[1], "topic": getattr(ev, "topic", "?") if ok_right else "?", "source_ok": ok_right and ev.source is inst[k[0]],
                         "accepts_own_class": ok_right, "rejects_other_class": wrong_rejected})
        cases.append({"id": f"ident-{oi}", "kind": "identity", "rows": rows, "stable": stable, "meta": meta})

    # UnboundSignal through the class
    EvA, EvB, Src, SubSrc = _classes()
    unbound = []

    def cls_of(f):
        try:
            f()
            return "ok"
        except UnboundSignal:
            return "UnboundSignal"
        except Exception as e:  # noqa: BLE001
            return type(e).__name__

    async def amain():
        async def a1():
            await Src.a.wait_event()

        async def a2():
            async with Src.a.stream_events():
                pass

        async def a3():
            await wait_event([Src.a])

        async def a4():
            async with stream_events([SubSrc.b]):
                pass

        async def a5():
            async with stream_events([Src().a, Src.a]):
                pass
        for name, fn in (("Signal.wait_event", a1), ("Signal.stream_events", a2), ("wait_event([cls.sig])", a3), ("stream_events([inherited cls.sig])", a4),
                         ("stream_events([bound, unbound])", a5)):
            try:
                with anyio.move_on_after(1):
                    await fn()
                r = "ok"
            except UnboundSignal:
                r = "UnboundSignal"
            except Exception as e:  # noqa: BLE001
                r = type(e).__name__
            unbound.append({"use": name, "obs": r})
    unbound.append({"use": "Signal.dispatch", "obs": cls_of(lambda: Src.a.dispatch(EvA(1)))})
    unbound.append({"use": "inherited Signal.dispatch", "obs": cls_of(lambda: SubSrc.b.dispatch(EvB(1)))})
    vclock.run(amain, backend="asyncio", seed=0)
    cases.append({"id": "unbound", "kind": "unbound", "uses": unbound})

    # binding never keeps the owner alive, also after subscriptions
    weak = []

    async def wmain():
        from asphalt.core import stream_events as se
        for variant in ("plain", "after-dispatch", "after-subscription", "two-signals"):
            EvA_, EvB_, Src_, _ = _classes()
            s = Src_()
            try:
                s.a
                if variant == "two-signals":
                    s.b
                if variant == "after-dispatch":
                    s.a.dispatch(EvA_(1))
                if variant == "after-subscription":
                    async with se([s.a, s.b]):
                        s.a.dispatch(EvA_(1))
            except Exception:  # noqa: BLE001  (rows are verdicts: a failing use is a failed row)
                weak.append({"variant": variant, "dead": False})
                continue
            r = weakref.ref(s)
            del s
            gc.collect()
            weak.append({"variant": variant, "dead": r() is None})
    vclock.run(wmain, backend="asyncio", seed=0)
    cases.append({"id": "weak", "kind": "weak", "rows": weak})

    # the same bound signal before, during and after a complete subscribe / unsubscribe history
    cyc = []

    async def cmain():
        from asphalt.core import stream_events as se
        EvA_, EvB_, Src_, Sub_ = _classes()
        for label, inst in (("own", Src_()), ("inherited", Sub_())):
            try:
                first = inst.a
                async with se([inst.a, inst.b]):
                    during = inst.a
                after = inst.a
                async with inst.a.stream_events():
                    pass
                again = inst.a
                good = first is during and during is after and after is again
            except Exception:  # noqa: BLE001
                good = False
            cyc.append({"variant": label, "dead": good})
    vclock.run(cmain, backend="asyncio", seed=0)
    cases.append({"id": "cycle", "kind": "weak", "rows": cyc})

    # a new instance that happens to be allocated where a dead one lived must not inherit the dead one's bound signal
    reuse = []
    EvA_, EvB_, Src_, Sub_ = _classes()
    for label, cls in (("own", Src_), ("inherited", Sub_)):
        good, hit = True, False
        for _ in range(300):
            x = cls()
            old = x.a
            addr = id(x)
            del x
            y = cls()
            if id(y) == addr:
                hit = True
                new = y.a
                ev = EvA_(1)
                try:
                    new.dispatch(ev)
                    stamped = ev.source is y
                except Exception:  # noqa: BLE001
                    stamped = False
                good = good and new is not old and stamped and y.a is new
            keep = y      # noqa: F841 - the next round allocates elsewhere first
            del old
            if hit and not good:
                break
        reuse.append({"variant": label, "dead": good, "exercised": hit})
    cases.append({"id": "reuse", "kind": "weak", "rows": reuse})

    # name-mangled signals: _Base__changed and _Sub__changed are different attributes of one instance
    priv = []

    class Base:
        __changed = Signal(EvA_)

        def base_sig(self):
            return self.__changed

    class Sub2(Base):
        __changed = Signal(EvB_)

        def sub_sig(self):
            return self.__changed

    for label, first in (("base-first", "base_sig"), ("sub-first", "sub_sig")):
        s = Sub2()
        getattr(s, first)()
        a, b = s.base_sig(), s.sub_sig()
        good = a is not b and a is s.base_sig() and b is s.sub_sig()
        for sig, cls, other, attr in ((a, EvA_, EvB_, "_Base__changed"), (b, EvB_, EvA_, "_Sub2__changed")):
            ev = cls(1)
            try:
                sig.dispatch(ev)
                good = good and ev.source is s and getattr(s, ev.topic, None) is sig and ev.topic == attr
            except Exception:  # noqa: BLE001
                good = False
            try:
                sig.dispatch(other(1))
                good = False
            except TypeError:
                pass
            except Exception:  # noqa: BLE001
                good = False
        priv.append({"variant": label, "dead": good})
    cases.append({"id": "private", "kind": "weak", "rows": priv})

    # an owner that happens to be falsy (an empty container, a __bool__ that says no) is an instance like any other: bound signal,
    # stable identity (also after the owner has become truthy), delivery, event stamped with the owner
    falsy = []

    class Basket:
        added = Signal(EvA_)

        def __init__(self):
            self.items = []

        def __len__(self):
            return len(self.items)

    class Flag:
        changed = Signal(EvA_)
        on = False

        def __bool__(self):
            return self.on

    async def fmain():
        for label, inst, attr, flip in (("empty-container", Basket(), "added", lambda o: o.items.append(1)),
                                        ("bool-false", Flag(), "changed", lambda o: setattr(o, "on", True))):
            try:
                first = getattr(inst, attr)
                got = []
                ev = EvA_(5)
                async with first.stream_events() as st:
                    getattr(inst, attr).dispatch(ev)
                    with anyio.move_on_after(1):
                        got.append((await st.__anext__()).n)
                good = first is getattr(inst, attr) and got == [5] and ev.source is inst
                flip(inst)
                good = good and getattr(inst, attr) is first
            except Exception:  # noqa: BLE001
                good = False
            falsy.append({"variant": label, "dead": good})
    vclock.run(fmain, backend="asyncio", seed=0)
    cases.append({"id": "falsy", "kind": "weak", "rows": falsy})

    # owners with value semantics (__eq__/__hash__ by value, as a frozen dataclass has): two different instances that compare equal
    # are still two instances - own bound signals, no delivery from one to the other's listeners, the event stamped with the
    # dispatching instance, and the bound signal of the survivor unchanged after the other one has been collected
    equal = []

    class Valued:
        changed = Signal(EvA_)

        def __init__(self, k):
            self.k = k

        def __eq__(self, other):
            return isinstance(other, Valued) and other.k == self.k

        def __hash__(self):
            return hash(self.k)

    @dataclasses.dataclass(frozen=True)
    class Point:
        x: int
        moved: ClassVar[Signal] = Signal(EvA_)

    async def emain():
        for label, make, attr in (("eq-hash", lambda: Valued(1), "changed"), ("frozen-dataclass", lambda: Point(1), "moved")):
            for order in ("a-first", "b-first"):
                try:
                    a, b = make(), make()
                    first, second = (a, b) if order == "a-first" else (b, a)
                    sa_first = getattr(first, attr)
                    sb_first = getattr(second, attr)
                    sa, sb = getattr(a, attr), getattr(b, attr)
                    good = a == b and a is not b and sa is not sb and sa_first is getattr(first, attr) and sb_first is getattr(second, attr)
                    got_a, got_b = [], []
                    ev = EvA_(9)
                    async with sa.stream_events() as st_a, sb.stream_events() as st_b:
                        sb.dispatch(ev)
                        with anyio.move_on_after(1):
                            got_b.append((await st_b.__anext__()).n)
                        with anyio.move_on_after(1):
                            got_a.append((await st_a.__anext__()).n)
                    good = good and got_b == [9] and got_a == [] and ev.source is b
                    del a, first, second, sa, sa_first, st_a
                    gc.collect()
                    good = good and getattr(b, attr) is sb
                except Exception:  # noqa: BLE001
                    good = False
                equal.append({"variant": label + ":" + order, "dead": good})
    vclock.run(emain, backend="asyncio", seed=0)
    cases.append({"id": "equal", "kind": "weak", "rows": equal})

    # the signal of a Context (resource_added) and a signal declared by a Context subclass: the same bound signal before the context
    # is entered, while it is open and after it has been closed; a listener that subscribed through the object obtained earlier
    # receives what is dispatched through a later access
    ctxrows = []

    async def ctxmain():
        from asphalt.core import Context

        class Ctx2(Context):
            extra = Signal(EvA_)

        for label, make_ctx in (("Context", Context), ("subclass", Ctx2)):
            try:
                ctx = make_ctx()
                before = ctx.resource_added
                extra_before = getattr(ctx, "extra", None)
                async with ctx:
                    during = ctx.resource_added
                after = ctx.resource_added
                good = before is during and during is after and getattr(ctx, "extra", None) is extra_before
                got = []
                if extra_before is not None:
                    async with extra_before.stream_events() as st:
                        ctx.extra.dispatch(EvA_(7))
                        with anyio.move_on_after(1):
                            got.append((await st.__anext__()).n)
                    good = good and got == [7]
            except Exception:  # noqa: BLE001  (a verdict, not a crash: a signal that rejects its own event class is not the same signal)
                good = False
            ctxrows.append({"variant": label, "dead": good})
    vclock.run(ctxmain, backend="asyncio", seed=0)
    cases.append({"id": "context", "kind": "weak", "rows": ctxrows})
    return cases


def delivery_cases():
    """C10's static rows: delivery between an instance and a shallow copy of it made after its signals were first used
    (two objects, two sets of channels: each stream gets exactly the events dispatched on its own instance, stamped with it)."""
    import anyio
    EvA, EvB, Src, SubSrc = _classes()
    rows = []

    async def main():
        for label, cls in (("own", Src), ("inherited", SubSrc)):
            src = cls()
            src.a, src.b                      # the bound signals exist before the copy is made
            cp = copy.copy(src)
            got = {"src": [], "cp": []}
            try:
                async with src.a.stream_events() as s1, cp.a.stream_events() as s2:
                    cp.a.dispatch(EvA(1))
                    src.a.dispatch(EvA(2))
                    for name, st, owner in (("src", s1, src), ("cp", s2, cp)):
                        with anyio.move_on_after(0.5):
                            while True:
                                ev = await st.__anext__()
                                got[name].append((ev.n, ev.source is owner))
            except Exception as e:  # noqa: BLE001
                got["error"] = type(e).__name__
            rows.append({"variant": label, "dead": got == {"src": [(2, True)], "cp": [(1, True)]}})
    vclock.run(main, backend="asyncio", seed=0)
    return [{"id": "copy-delivery", "kind": "weak", "rows": rows}]


def check(prop: str, tier: str, seed: int) -> core.Report:
    rep = core.Report(prop, tier, seed)
    res = tlc.run("MC_Signals", "MC_Signals_props", workers=core.NCPU, big=True, heap="16g", timeout=3000, check=False)
    if res.error or res.invariant_violated or res.property_violated:
        raise core.MachineryError(f"Signals.tla violates its own properties: {res.invariant_violated or res.error or 'Isolation'}\n{res.out[-1500:]}")
    rep.add_tlc(res, "MC_Signals_props (3 channels, 2 subscribers, 3 events, queue sizes 0-2): InOrder, OwnChannelsOnly, QueueOwnChannels, QueueBounded, Registered, WaitOne, Isolation")
    cfg = open(tlc.SPECS / "MC_Signals.cfg").read()
    if tier == "thorough":
        cfg = cfg.replace("MC_ChanSeqsQuick", "MC_ChanSeqs").replace("MaxEv = 2", "MaxEv = 3")       # (with AbandonSubs = {1, 2} as well the walk peaks at 47 GB)
    dump = tlc.run("MC_Signals", cfg_text=cfg, workers=1, heap="12g", timeout=6000, check=False)
    if dump.error:
        raise core.MachineryError(f"MC_Signals dump: {dump.error}\n{dump.out[-1500:]}")
    g = graphwalk.load(dump.out)
    if len(g.states) != dump.distinct:
        raise core.MachineryError(f"MC_Signals dump has {len(g.states)} states, TLC reports {dump.distinct}")
    rep.add_tlc(dump, "MC_Signals dump: every transition of the bounded graph exported")
    stats, mism = graphwalk.walk(g, make, seed, backends=vclock.BACKENDS)
    # bursts: dispatches that follow each other without the receiving tasks getting to run (2 channels, 2 subscribers, 2 events; thorough: 3)
    resb = tlc.run("MC_Signals", "MC_Signals_burst_props", workers=core.NCPU, big=True, heap="16g", timeout=3000, check=False)
    if resb.error or resb.invariant_violated or resb.property_violated:
        raise core.MachineryError(f"Signals.tla (bursts) violates its own properties: {resb.invariant_violated or resb.error or 'Isolation'}\n{resb.out[-1500:]}")
    rep.add_tlc(resb, "MC_Signals_burst_props (bursts of dispatches; 2 channels, 2 subscribers, 3 events, queue sizes 0-1): the same properties and TransitOnlyInBursts")
    cfgb = open(tlc.SPECS / "MC_Signals_burst.cfg").read()
    if tier == "thorough":
        cfgb = cfgb.replace("MaxEv = 2", "MaxEv = 3").replace("AbandonSubs = {}", "AbandonSubs = {1}")
    dumpb = tlc.run("MC_Signals", cfg_text=cfgb, workers=1, heap="12g", timeout=6000, check=False)
    if dumpb.error:
        raise core.MachineryError(f"MC_Signals burst dump: {dumpb.error}\n{dumpb.out[-1500:]}")
    gb = graphwalk.load(dumpb.out)
    if len(gb.states) != dumpb.distinct:
        raise core.MachineryError(f"MC_Signals burst dump has {len(gb.states)} states, TLC reports {dumpb.distinct}")
    rep.add_tlc(dumpb, "MC_Signals burst dump: every transition of the bounded graph with unsettled dispatches exported")
    statsb, mismb = graphwalk.walk(gb, make, seed + 1, backends=vclock.BACKENDS)
    # a third, tiny graph: one channel, one subscriber, bursts of up to three events (a waiter handed the first, the second queued, the third ...)
    dump3 = tlc.run("MC_Signals", "MC_Signals_burst3", workers=1, heap="4g", timeout=1800, check=False)
    if dump3.error:
        raise core.MachineryError(f"MC_Signals burst3 dump: {dump3.error}\n{dump3.out[-1500:]}")
    g3 = graphwalk.load(dump3.out)
    rep.add_tlc(dump3, "MC_Signals burst3 dump: one channel, one subscriber, bursts of up to three events")
    stats3, mism3 = graphwalk.walk(g3, make, seed + 2, backends=vclock.BACKENDS, jobs=4)
    for k in ("tours", "edges", "prefix_steps", "unexamined_transitions"):
        statsb[k] = statsb.get(k, 0) + stats3.get(k, 0)
    mismb = list(mismb) + list(mism3)
    rep.extra["replay_bursts"] = dict(statsb, states=len(gb.states), unsettled_dispatches=sum(1 for st in gb.states.values() for o, _ in st["edges"] if o.get("a") == "Dispatch" and not o.get("settle", True)))
    for k in ("tours", "edges", "prefix_steps", "unexamined_transitions"):
        stats[k] = stats.get(k, 0) + statsb.get(k, 0)
    mism = list(mism) + list(mismb)
    rep.extra["replay"] = dict(stats, states=len(g.states) + len(gb.states))
    rep.traces_validated = stats["tours"]
    rep.evaluations = stats["edges"] + stats["prefix_steps"]
    rep.distinct_nontrivial = stats["edges"]
    rep.exhaustive = stats.get("unexamined_transitions", 0) == 0
    other = 0
    for props, what, obs, exp, got, path in mism:
        if prop in props:
            rep.violations.append(core.Violation(prop, f"{what} after {obs['a']} (expected {exp}, observed {got})", f"{prop}:{what}:{obs['a']}",
                                                 {"kind": "signals", "path": path, "seed": seed}, {"expected": exp, "observed": got, "attributed_to": props}))
        else:
            other += 1
    rep.extra["differences_attributed_to_other_properties"] = other
    k = g.order[min(len(g.order) - 1, 500)]
    rep.samples = [{"state": g.states[k]["enc"], "transitions_out": [e[0] for e in g.states[k]["edges"][:3]]}]
    rep.rule = ("every transition of two bounded Signals graphs (subscribe / wait_event / a list with an unbound signal / dispatch incl. wrong event class / consume / give up waiting / leave over 3 channels; "
                "and, over 2 channels, bursts of dispatches between which the receiving tasks do not run) "
                "of 2 instances, 2 subscribers, filters, queue sizes 0-1) executed once against real signals with one task per subscriber, on asyncio and "
                "trio (partitions alternate); after each step the delivered sequences of all subscribers (event number, channel from source/topic), consume "
                "results, dispatch results and SignalQueueFull counts are compared; distinct_nontrivial = distinct transitions examined")
    rep.assumptions = ["a stream is owned by one task; a stream is never given the same signal twice", "Event.time is only type-checked"]
    return rep


def replay_path(prop: str, scenario: dict):
    out = []

    async def main():
        import anyio
        async with anyio.create_task_group() as tg:
            ex = Exec(tg, scenario.get("seed", 1))
            for obs in scenario["path"]:
                await ex.step(obs)
            out.append({k: w["got"] for k, w in ex.workers.items()})
            await ex.finish()
            tg.cancel_scope.cancel()
    vclock.run(main, backend="asyncio", seed=1)
    return out
