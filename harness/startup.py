"""Driver for the start-up families of specs/Startup.tla (C05, C06, C07): component classes are generated from the program,
every scripted step waits at a gate, the TLC schedule opens gates (or lets virtual time pass the timeout), quiescence is exact."""
from __future__ import annotations

import collections
import json

from . import core, tlc, vclock

TIMEOUT = 1000


class Boom(Exception):
    pass


class A:
    pass


class B:
    pass


TY = {"A": A, "B": B}


class Z:
    pass


class Obj(A, B, Z):
    def __init__(self, label):
        self.label = label


class FalsyObj(Obj):
    """a perfectly legal resource that happens to be falsy (like 0, "" or an empty container)"""

    def __bool__(self):
        return False

    def __len__(self):
        return 0


def execute(case):
    import anyio
    from anyio import Event, create_task_group, get_cancelled_exc_class
    from asphalt.core import (AsyncResourceError, Component, ComponentStartError, Context, ResourceNotFound, add_resource, context_teardown,
                              add_resource_factory, add_teardown_callback, get_resource, get_resource_nowait, get_resources, start_component, start_service_task)

    prog, sched = case["prog"], list(case["hist"])
    burst = case.get("burst", False)
    Val = FalsyObj if case.get("seed", 0) % 2 else Obj
    events = []

    def log(**e):
        events.append(e)

    async def main():
        C = get_cancelled_exc_class()
        n = prog["n"]
        par = prog["par"]
        kids = {c: [d for d in range(1, n + 1) if par[d - 1] == c] for c in range(1, n + 1)}
        at_gate = {}
        giveups = {}
        waiting = set()
        state = {"exc": None, "outer": None, "values": [], "factories": []}
        fin = {}
        classes = {}
        fc, fphase = prog["fail"]["c"], prog["fail"]["phase"]
        sync_ok = not any(op["k"] == "add" and op["x"] == "afac" for sc_ in prog["sp"] + prog["ss"] for op in sc_)

        def make_boom(what):
            # one execution in three fails with an exception that is itself a ComponentStartError (as a nested start_component would raise)
            if case.get("seed", 0) % 3 == 0:
                return ComponentStartError("creating" if what != "creating" else "starting", "some.other.path", Component)
            if case.get("seed", 0) % 3 == 1 and what != "creating":
                # ... and one in three with an exception group holding a single exception (a component's own task group with one
                # failing subtask): the group itself is what the component raised, so the group is the cause
                return ExceptionGroup("own task group", [Boom(what)])
            return Boom(what)

        async def gate(c):
            if state.get("over"):
                return                     # the run is being wound up: never park again (code may be shielded from cancellation)
            ev = Event()
            at_gate[c] = ev
            try:
                await ev.wait()
            except C:
                at_gate.pop(c, None)
                log(ev="cancelled", c=c)
                raise

        async def gate_in_handshake(c):
            """the same gate, but the component waits at it inside `await start_service_task(...)`: the service function calls
            task_status.started() only once the gate has opened (a slow start handshake)"""
            if state.get("over"):
                return
            ev = Event()
            at_gate[c] = ev
            abandoned = []

            async def service(*, task_status):
                await ev.wait()
                if not abandoned:
                    task_status.started()
            try:
                await start_service_task(service, f"handshake-{c}-{len(state['values'])}-{id(ev):x}")
            except C:
                at_gate.pop(c, None)
                abandoned.append(1)
                ev.set()
                log(ev="cancelled", c=c)
                raise

        def actual_name(op, value, T0):
            outer = state["outer"]
            if op["x"] in ("res", "res2"):
                # read back through the component's own context (module-level shortcut): it must show what the surrounding context holds
                for nm, v in get_resources(T0).items():
                    if v is value:
                        return nm
                return "?"
            for cand in ("default", "n", "m"):
                try:
                    got = outer.get_resource_nowait(T0, cand, optional=True)
                except AsyncResourceError:
                    return cand
                if got is not None and getattr(got, "label", None) == value:
                    return cand
            return "?"

        def mk(c):
            ns = {}

            def __init__(self):
                log(ev="ctor", c=c)
                for d in kids[c]:
                    drn = prog["drn"][d - 1]
                    typ = classes[d]
                    if (case.get("seed", 0) + d) % 3 == 2:
                        # the child's type named by a module:attr reference instead of the class object
                        import sys
                        import types as _types
                        mod = sys.modules.setdefault("verif_startup_dyn", _types.ModuleType("verif_startup_dyn"))
                        attr = f"C{d}_{id(classes):x}"
                        setattr(mod, attr, classes[d])
                        typ = f"verif_startup_dyn:{attr}"
                    self.add_component(f"k{d}" if drn == "default" else f"k{d}/{drn}", typ)
                if fc == c and fphase == "creating":
                    x = make_boom("creating")
                    state["exc"] = x
                    log(ev="fail", c=c, phase="creating", exc="boom")
                    raise x
            ns["__init__"] = __init__

            async def body(ph, which, script):
                log(ev=f"{which}.begin", c=c)
                ident = [c, which]
                add_teardown_callback(lambda: log(ev="td", id=ident))
                log(ev="reg", id=ident)
                for ip, op in enumerate(script, start=1):
                    if op["k"] == "noop" and (case.get("seed", 0) + c) % 4 == 2:
                        await gate_in_handshake(c)
                    else:
                        await gate(c)
                    log(ev="step", c=c)
                    if fc == c and fphase == ("preparing" if ph == "prep" else "starting") and ip == len(script):
                        x = make_boom(ph)
                        state["exc"] = x
                        log(ev="fail", c=c, phase="preparing" if ph == "prep" else "starting", exc="boom")
                        raise x
                    if op["k"] == "svc":
                        sid = [c, f"svc{ip}"]

                        async def service(sid=sid):
                            try:
                                await anyio.sleep_forever()
                            finally:
                                log(ev="td", id=sid)          # stopping the task is this registration's teardown
                        await start_service_task(service, f"svc-{c}-{ip}")
                        log(ev="reg", id=sid)
                    elif op["k"] == "add":
                        types = [TY[t] for t in op["ts"]]
                        if op["x"] in ("res", "res2"):
                            if op["x"] == "res2":
                                dlabel = ["decoy", c, ph, ip]
                                dval = Val(dlabel)
                                if op["n"] == "default":
                                    add_resource(dval, types=[Z])
                                else:
                                    add_resource(dval, op["n"], [Z])
                                log(ev="publish", c=c, ts=["Z"], n=actual_name({"x": "res"}, dval, Z), kind="res", v=dlabel)
                            label = ["v", c, ph, ip]
                            value = Val(label)
                            if op["n"] == "default":
                                add_resource(value, types=types)
                            else:
                                add_resource(value, op["n"], types)
                            state["values"].append(value)
                            log(ev="publish", c=c, ts=op["ts"], n=actual_name(op, value, types[0]), kind="res", v=label)
                        else:
                            label = ["prod", c, ph, ip]
                            if op["x"] == "fac":
                                def factory(label=label):
                                    return Val(label)
                            else:
                                async def factory(label=label):
                                    await anyio.sleep(0)
                                    return Val(label)
                            if op["n"] == "default":
                                add_resource_factory(factory, types=types)
                            else:
                                add_resource_factory(factory, op["n"], types=types)
                            an = actual_name(op, label, types[0])
                            state["factories"].append((types[0], an, label))
                            log(ev="publish", c=c, ts=op["ts"], n=an, kind="fac", v=label)
                    elif op["k"] == "get":
                        T = TY[op["ts"][0]]
                        log(ev="get.begin", c=c, t=op["ts"][0], n=op["n"], mode=op["x"])
                        waiting.add(c)
                        try:
                            if case.get("inject"):
                                # the same lookups made through @inject-decorated functions called inside the component's method
                                # (C19: equivalent to the explicit lookup in the context current at call time)
                                fn = _injected(op["ts"][0], op["n"], op["x"], sync_ok and (case.get("seed", 0) + c) % 2)
                                if op["x"] == "giveup":
                                    with anyio.CancelScope() as gsc:
                                        giveups[c] = gsc
                                        v = await fn(c)
                                    giveups.pop(c, None)
                                    if gsc.cancelled_caught:
                                        log(ev="get.end", c=c, t=op["ts"][0], n=op["n"], r="gaveup", v=[])
                                        continue
                                elif op["x"] == "nowait":
                                    v = await state["outer"].get_resource(T, op["n"])
                                else:
                                    v = fn(c)
                                    if hasattr(v, "__await__"):
                                        v = await v
                            elif op["x"] == "giveup":
                                with anyio.CancelScope() as gsc:
                                    giveups[c] = gsc
                                    v = await get_resource(T, op["n"])
                                giveups.pop(c, None)
                                if gsc.cancelled_caught:
                                    log(ev="get.end", c=c, t=op["ts"][0], n=op["n"], r="gaveup", v=[])
                                    continue
                            elif op["x"] == "wait" and (case.get("seed", 0) + c) % 3 == 1:
                                # a second task of the same component asks - a little later - for something nobody ever publishes: two lookups
                                # are pending through the same component context; the first one must still be woken by its publication
                                async def decoy():
                                    await anyio.sleep(0)
                                    await anyio.sleep(0)
                                    await get_resource(FalsyObj, "never_published")
                                async with anyio.create_task_group() as dtg:
                                    dtg.start_soon(decoy)
                                    v = await get_resource(T, op["n"])
                                    dtg.cancel_scope.cancel()
                            elif op["x"] == "wait":
                                v = await get_resource(T, op["n"])
                            elif op["x"] == "opt":
                                # the synchronous API of the component's context is equivalent here unless an async factory is in play
                                if sync_ok and (case.get("seed", 0) + c) % 2:
                                    v = get_resource_nowait(T, op["n"], optional=True)
                                else:
                                    v = await get_resource(T, op["n"], optional=True)
                            elif sync_ok and (case.get("seed", 0) + c) % 2:
                                v = get_resource_nowait(T, op["n"])
                            else:
                                v = await state["outer"].get_resource(T, op["n"])
                            if v is None:
                                log(ev="get.end", c=c, t=op["ts"][0], n=op["n"], r="none", v=[])
                            else:
                                log(ev="get.end", c=c, t=op["ts"][0], n=op["n"], r="val", v=getattr(v, "label", ["?"]))
                        except ResourceNotFound:
                            log(ev="get.end", c=c, t=op["ts"][0], n=op["n"], r="notfound", v=[])
                        except C:
                            log(ev="cancelled", c=c)
                            raise
                        except Exception as e:  # noqa: BLE001
                            log(ev="get.end", c=c, t=op["ts"][0], n=op["n"], r="other:" + type(e).__name__, v=[])
                            raise
                        finally:
                            waiting.discard(c)
                log(ev=f"{which}.end", c=c)
            if prog["hp"][c - 1]:
                async def prepare(self):
                    await body("prep", "prepare", prog["sp"][c - 1])
                ns["prepare"] = prepare
            raw = (prog["hs"][c - 1] and case["backend"] == "asyncio" and (case.get("seed", 0) + c) % 3 == 1
                   and all(op["k"] == "noop" for op in prog["ss"][c - 1]))
            if raw:
                # start() written with @context_teardown, suspended directly on a bare asyncio future (asphalt's timeout report
                # has to walk through an async generator to describe where such a component is stuck)
                @context_teardown
                async def start(self):
                    import asyncio
                    log(ev="start.begin", c=c)
                    ident = [c, "start"]
                    add_teardown_callback(lambda: log(ev="td", id=ident))
                    log(ev="reg", id=ident)
                    for ip, op in enumerate(prog["ss"][c - 1], start=1):
                        if not state.get("over"):
                            fut = asyncio.get_running_loop().create_future()

                            class FutGate:
                                def set(self_inner, fut=fut):
                                    if not fut.done():
                                        fut.set_result(None)
                            at_gate[c] = FutGate()
                            try:
                                await fut
                            except C:
                                at_gate.pop(c, None)
                                log(ev="cancelled", c=c)
                                raise
                        log(ev="step", c=c)
                        if fc == c and fphase == "starting" and ip == len(prog["ss"][c - 1]):
                            x = make_boom("start")
                            state["exc"] = x
                            log(ev="fail", c=c, phase="starting", exc="boom")
                            raise x
                    log(ev="start.end", c=c)
                    yield
                ns["start"] = start
            elif prog["hs"][c - 1]:
                async def start(self):
                    await body("start", "start", prog["ss"][c - 1])
                ns["start"] = start
            if (c + case.get("seed", 0)) % 2 == 0:
                # the methods are inherited from an intermediate base class
                init = ns.pop("__init__")
                base = type(f"Base{c}", (Component,), ns)
                return type(f"C{c}", (base,), {"__init__": init})
            return type(f"C{c}", (Component,), ns)
        for c in range(n, 0, -1):
            classes[c] = mk(c)

        def cid(cls):
            for k, v in classes.items():
                if v is cls:
                    return k
            return -1

        after = Event()

        async def starter():
            try:
                async with Context() as outer:
                    state["outer"] = outer
                    with anyio.CancelScope() as scope:
                        state["scope"] = scope
                        try:
                            inst = await start_component(classes[1], timeout=TIMEOUT if prog["timeout"] else None)
                            log(ev="sc.return", ok=isinstance(inst, classes[1]))
                            fin["f"] = "ret"
                        except ComponentStartError as e:
                            log(ev="sc.raise", cls="ComponentStartError", phase=e.phase, path=e.path, ctype=cid(e.component_type),
                                cause="boom" if e.__cause__ is state["exc"] else "other:" + type(e.__cause__).__name__)
                            fin["f"] = "raised"
                        except TimeoutError:
                            log(ev="sc.raise", cls="TimeoutError", phase="", path="", ctype=0, cause="")
                            fin["f"] = "raised"
                        except C:
                            fin["f"] = "stopped"
                            raise
                        except BaseException as e:  # noqa: BLE001
                            log(ev="sc.raise", cls=type(e).__name__, phase="", path="", ctype=0, cause="")
                            fin["f"] = "raised"
                    await after.wait()
                    if fin.get("f") == "ret":
                        got = []
                        for T in (A, B):
                            got += [getattr(v, "label", ["?"]) for v in outer.get_resources(T).values()]
                        # factories registered by components must be usable from the surrounding context as well
                        for (T, nm, label) in state["factories"]:
                            try:
                                v = await outer.get_resource(T, nm, optional=True)
                            except Exception:  # noqa: BLE001
                                v = None
                            if v is not None:
                                got.append(getattr(v, "label", ["?"]))
                        log(ev="visible", want=[v.label for v in state["values"]] + [f[2] for f in state["factories"]], got=got)
                    log(ev="ctx.exit.begin")
                log(ev="ctx.exit.end")
            except BaseException as e:  # noqa: BLE001
                log(ev="outer.raise", cls=type(e).__name__)

        def snapshot():
            log(ev="q", gates=sorted(at_gate), waiting=sorted(waiting))

        async with create_task_group() as tg:
            tg.start_soon(starter)
            await vclock.quiescent()
            snapshot()
            drift = None
            while sched and "f" not in fin:
                a = sched.pop(0)
                if a == 0:
                    log(ev="clock.passed")
                    await anyio.sleep(TIMEOUT + 1)
                elif a >= 100:
                    if a - 100 not in giveups:
                        drift = f"specification lets component {a - 100} give up a lookup, but it is not waiting"
                        break
                    giveups[a - 100].cancel()
                else:
                    if a not in at_gate:
                        drift = f"specification releases component {a}, which is not at a gate"
                        break
                    group = [a]
                    while burst and sched and 0 < sched[0] < 100 and sched[0] in at_gate and sched[0] not in group:
                        group.append(sched.pop(0))
                    for b in group:
                        at_gate.pop(b).set()
                await vclock.quiescent()
                snapshot()
            if "f" not in fin and not drift and not at_gate and not sched and case.get("fin") in ("ret", "raised"):
                # the specification says start_component is over by now: give the real one (virtual) time before calling it stuck
                log(ev="grace")
                await anyio.sleep(2 * TIMEOUT + 5)
                await vclock.quiescent()
            if "f" not in fin and not drift and not at_gate:
                log(ev="stuck")
            if drift:
                log(ev="drift", what=drift)
            elif sched:
                log(ev="drift", what="start_component finished before the schedule was exhausted")
            elif "f" not in fin and at_gate:
                log(ev="drift", what=f"schedule exhausted but components {sorted(at_gate)} are still at gates")
            # nothing may run once start_component has finished: open every remaining gate and let the clock pass
            if "f" not in fin:
                state["scope"].cancel()
                await vclock.quiescent()
            for c in list(at_gate):
                at_gate.pop(c).set()
            await anyio.sleep(2 * TIMEOUT + 5)
            await vclock.quiescent()
            state["over"] = True
            for c in list(at_gate):
                at_gate.pop(c).set()
            await vclock.quiescent()
            after.set()
            await vclock.quiescent()
            tg.cancel_scope.cancel()

    try:
        vclock.run(main, backend=case["backend"], seed=case.get("seed", 0), shuffle=case.get("shuffle", False), watchdog=True)
    except BaseException as e:  # noqa: BLE001
        events.append({"ev": "crash", "what": repr(e)[:200]})
    p = {k: prog[k] for k in ("n", "par", "hp", "hs", "paths", "timeout", "acyclic", "fail")}
    return {"id": case["id"], "prog": p, "events": events}


_INJ = {}


def _injected(tname, name, mode, sync):
    """An @inject-decorated function whose one marker asks for (TY[tname], name); optional for mode "opt"; plain function when `sync`
    (only used for "opt", where the explicit driver also uses the synchronous API)."""
    key = (tname, name, mode == "opt", bool(sync and mode == "opt"))
    if key not in _INJ:
        from asphalt.core import inject, resource
        T = TY[tname]
        ann = (T | None) if key[2] else T
        if key[3]:
            def f(tag, *, dep=resource(name)):
                return dep
        else:
            async def f(tag, *, dep=resource(name)):
                return dep
        f.__annotations__ = {"dep": ann}
        _INJ[key] = inject(f)
    return _INJ[key]


def _exec_chunk(chunk):
    return [execute(c) for c in chunk]


def family_check(prop: str, tier: str, seed: int, cfgs: list[tuple[str, str]], trace_module: str, need_hits: set, pick, rule: str, notes: list[str],
                 case_extra: dict | None = None) -> core.Report:
    """cfgs: [(label, cfg text)]; pick(pairs, tier, seed) selects the (program, schedule) pairs to execute."""
    rep = core.Report(prop, tier, seed)
    pairs = []
    for label, cfg in cfgs:
        res = tlc.run("MC_Startup", cfg_text=cfg, workers=core.NCPU, big=True, heap="24g", timeout=5000, check=False)
        if res.error or res.invariant_violated:
            raise core.MachineryError(f"Startup.tla ({label}): {res.invariant_violated or res.error}\n{res.out[-1500:]}")
        rep.add_tlc(res, f"MC_Startup {label}: the design satisfies the monitors and state invariants; terminal (program, schedule) pairs exported")
        pairs += list(res.printed())
    chosen = pick(pairs, tier, seed)
    cases = []
    for i, p in enumerate(chosen):
        for be in vclock.BACKENDS:
            cases.append({"id": f"{i}-{be}", "prog": p["prog"], "hist": p["hist"], "fin": p["fin"], "backend": be, "seed": seed + i})
            if len(p["hist"]) >= 2 and (tier == "thorough" or i % 3 == 0):
                cases.append({"id": f"{i}-{be}-b", "prog": p["prog"], "hist": p["hist"], "fin": p["fin"], "backend": be, "seed": seed + i + 7, "burst": True})
        if tier == "thorough":
            cases.append({"id": f"{i}-asyncio-s", "prog": p["prog"], "hist": p["hist"], "fin": p["fin"], "backend": "asyncio", "seed": seed + i, "burst": True, "shuffle": True})
    for c in cases:
        c.update(case_extra or {})
    chunks = [cases[i:i + 200] for i in range(0, len(cases), 200)]
    traces = [t for ch in core.pmap(_exec_chunk, chunks, chunks=1) for t in ch]
    verdicts, d, g = core.validate_traces(trace_module, traces, chunk=2500)
    rep.states += d
    rep.transitions += max(d, g)
    rep.traces_validated = len(traces)
    rep.evaluations = len(traces)
    by = {c["id"]: c for c in cases}
    hits = collections.Counter()
    drift = 0
    nontrivial = set()
    for t in traces:
        v = verdicts[t["id"]]
        c = by[t["id"]]
        for h in v.get("hits", []):
            hits[h] += 1
        if any(e["ev"] in ("drift", "crash") for e in t["events"]):
            drift += 1
        if len(c["hist"]) >= 2:
            nontrivial.add(json.dumps([c["prog"], c["hist"]], sort_keys=True))
        if not v["ok"]:
            rep.violations.append(core.Violation(prop, v["why"], f"{prop}:{v['why']}", {"case": c}, {"events": t["events"][:80], "step": v["step"]}))
    if not need_hits <= set(hits) and not rep.violations:
        raise core.MachineryError(f"vacuous: monitor clauses never exercised: {sorted(need_hits - set(hits))}")
    rep.distinct_nontrivial = len(nontrivial)
    rep.rule = rule
    rep.extra.update({"pairs_enumerated_by_tlc": len(pairs), "pairs_executed": len(chosen), "monitor_hits": dict(hits),
                      "executions_that_left_the_specification (drift, informational)": drift})
    rep.samples = [{"prog": chosen[len(chosen) // 2]["prog"], "schedule": chosen[len(chosen) // 2]["hist"], "fin": chosen[len(chosen) // 2]["fin"]}]
    rep.assumptions = ["user code is scripted and parks at gates; the gate-level schedule is exhaustive, checkpoint-level interleavings inside asphalt come from bursts, "
                       "trio's seeded scheduler and (thorough) the shuffled asyncio loop"] + notes
    return rep


def replay_case(prop: str, trace_module: str, scenario: dict):
    t = execute(dict(scenario["case"], id="replay"))
    verdicts, _, _ = core.validate_traces(trace_module, [t])
    v = verdicts["replay"]
    return [] if v["ok"] else [core.Violation(prop, v["why"], f"{prop}:{v['why']}", scenario, {"events": t["events"][:80]})]
