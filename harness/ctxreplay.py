"""Exhaustive replay of the bounded state graph of specs/Ctx.tla against real asphalt Context objects (DESIGN §3.4).

TLC dumps every state (with all outcomes that change nothing there) and every state-changing transition. The driver walks
the graph in tours from the initial state; after every step it compares the real result, the full projection of every
context (get_resources for every type, `closed`), the resource_added events received on every context, the callbacks run and
the factory call counts with the specification's prediction. A difference is attributed to the properties whose statement
constrains the differing field; prefixes are checked as well, and a tour is abandoned at its first difference."""
from __future__ import annotations

import collections
import json
import os
import sys
import time

from . import core, tlc, vclock


# ------------------------------------------------------------------------------------------------ graph
class Graph:
    def __init__(self):
        self.states = {}      # key -> {"enc":…, "loops":[…], "edges":[(obs, tokey)]}
        self.init = None
        self.order = []

    @staticmethod
    def key(enc):
        return json.dumps(enc, sort_keys=True, separators=(",", ":"))


def load_graph(out: str) -> Graph:
    g = Graph()
    cur = None
    for line in out.splitlines():
        if not line.startswith('"{'):
            continue
        rec = json.loads(json.loads(line))
        if "s" in rec:
            k = Graph.key(rec["s"])
            cur = g.states.setdefault(k, {"enc": rec["s"], "loops": [], "edges": []})
            cur["loops"] = rec["loops"] if isinstance(rec["loops"], list) else []
            g.order.append(k)
            if g.init is None:
                g.init = k
        else:
            cur["edges"].append((rec["obs"], Graph.key(rec["to"]), rec["to"]))
    for k, st in list(g.states.items()):
        for _, tk, tenc in st["edges"]:
            if tk not in g.states:
                g.states[tk] = {"enc": tenc, "loops": None, "edges": []}
    return g


def dump_graph(cfg: str, timeout=3000) -> tuple[Graph, "tlc.TLCResult"]:
    res = tlc.run("MC_Ctx", cfg, workers=1, heap="8g", timeout=timeout, check=False)
    if res.error:
        raise core.MachineryError(f"MC_Ctx/{cfg}: {res.error}\n{res.out[-1500:]}")
    g = load_graph(res.out)
    if len(g.states) != res.distinct:
        raise core.MachineryError(f"MC_Ctx/{cfg}: dump has {len(g.states)} states, TLC reports {res.distinct}")
    missing = [k for k, s in g.states.items() if s["loops"] is None]
    if missing:
        raise core.MachineryError(f"MC_Ctx/{cfg}: {len(missing)} states without an 's' line")
    return g, res


# ------------------------------------------------------------------------------------------------ real objects
sys.path.insert(0, str(core.VERIF / "harness" / "fixtures"))


def _fx():
    import verif_inject_fixture as fx
    return fx


class _Types(dict):
    """T1/T2 live in the inject fixture module (imported lazily, after asphalt's import path is fixed)"""

    def __missing__(self, k):
        fx = _fx()
        self["T1"], self["T2"] = fx.T1, fx.T2
        return dict.__getitem__(self, k)

    def items(self):
        self["T1"]
        return dict.items(self)


TY = _Types()
BAD_NAMES = ["bad name", "a.b", "", "x:y"]


def canon(x):
    """canonical, hashable form of an id coming from JSON (type sets are sorted)"""
    if isinstance(x, list):
        return tuple(canon(sorted(y) if isinstance(y, list) and all(isinstance(z, str) for z in y) else y) for y in x)
    return x


class Real:
    """One tour's real contexts. Only the public API of asphalt is used."""

    def __init__(self, nctx, names, variant, tg):
        self.nctx, self.names, self.variant, self.tg = nctx, names, variant, tg
        self.ctx = {}
        self.ids = {}            # id(obj) -> canonical id
        self.keep = []
        self.events = {}         # c -> list of events received
        self.listeners = {}
        self.to_clear = []
        self.tdlog = []
        self.calls = collections.Counter()   # (fid, ctx) -> factory calls
        self.get_ctx = None
        self.generated = None
        self.cur = None
        self.prev = {}
        self.step_no = 0
        self.agents = {}
        self.last_inject = None

    def ty(self, t):
        """the Python type standing for T1/T2. In the plain executor half of the tours use, for T2, a generic alias that is created
        anew for every call (equal and equally hashed, but never the identical object) - a legal resource type"""
        if t == "T2" and not self.inject and self.variant % 2 == 0 and type(self) is Real:
            return list[TY["T2"]]
        return TY[t]

    def remember(self, obj, cid):
        self.ids[id(obj)] = cid
        self.keep.append(obj)

    async def listen(self, c, ctx):
        import anyio
        ready = anyio.Event()
        log = self.events.setdefault(c, [])

        async def stalled(*, task_status):
            # a listener that subscribed earlier and never keeps up (its queue of one is full after the first event): the others
            # must go on receiving every event
            with anyio.CancelScope() as scope:
                self.listeners[("stalled", c)] = scope
                async with ctx.resource_added.stream_events(max_queue_size=1):
                    task_status.started()
                    await anyio.sleep_forever()

        async def run(*, task_status):
            with anyio.CancelScope() as scope:
                self.listeners[c] = scope
                async with ctx.resource_added.stream_events(max_queue_size=1000) as stream:
                    task_status.started()
                    async for ev in stream:
                        log.append(ev)

        if self.variant % 2:
            await self.tg.start(stalled)
        await self.tg.start(run)

    def ev_tuple(self, c, ev):
        def name_of(t):
            for k in ("T1", "T2"):
                if t == TY[k] or t == list[TY["T2"]] and k == "T2":
                    return k
            return repr(t)
        return (c, tuple(sorted(name_of(t) for t in ev.resource_types)), ev.resource_name, bool(ev.is_factory),
                ev.source is self.ctx[c], ev.topic == "resource_added", ev.resource_description)

    def types_arg(self, ts):
        cls = [self.ty(t) for t in sorted(ts)]
        if len(cls) == 1 and self.variant % 3 == 1:
            return cls[0]
        if self.variant % 3 == 2:
            return tuple(cls)
        return cls

    async def step(self, obs):
        """execute one operation; returns (result class, value id or None)"""
        from asphalt.core import AsyncResourceError, Context, ResourceConflict, ResourceNotFound
        self.step_no += 1
        while self.to_clear:
            self.to_clear.pop().clear()
        a = obs["a"]
        c = obs["c"]
        try:
            if a == "Create":
                p = obs["p"]
                if p and (self.cur == p) and self.variant % 2 == 0:
                    ctx = Context()              # implicit parent: the current context
                else:
                    ctx = Context(self.ctx[p]) if p else Context()
                self.ctx[c] = ctx
                await self.listen(c, ctx)
                await ctx.__aenter__()
                self.prev[c] = self.cur
                self.cur = c
                if self.inject:
                    await self.start_agent(c)
                return "ok", None
            ctx = self.ctx[c]
            if a == "Close":
                try:
                    await ctx.__aexit__(None, None, None)
                finally:
                    self.cur = self.prev.get(c)
                return "ok", None
            if a == "AddRes":
                ts, n, cb, flaw = obs["ts"], obs["n"], obs["cb"], obs["flaw"]
                cid = ("s", c, tuple(sorted(ts)), n)
                kwargs = {}
                if cb == "ok" and obs["r"] == "ok":
                    kwargs["teardown_callback"] = lambda cid=cid: self.tdlog.append(("res", cid))
                elif cb == "ok":
                    # the specification says this add fails: its callback must never run
                    kwargs["teardown_callback"] = lambda: self.tdlog.append(("failed-add", c))
                value = TY[sorted(ts)[0]]() if len(ts) == 1 else type("Both", (TY["T1"], TY["T2"]), {})()
                name = n
                types = self.types_arg(ts)
                if len(ts) == 1 and self.variant % 2 == 1 and flaw == "none":
                    types = ()                       # let the type of the value decide (odd variants never use the generic alias)
                if flaw == "badname":
                    name = BAD_NAMES[self.step_no % len(BAD_NAMES)]
                elif flaw == "nonevalue":
                    value = None
                elif flaw == "badtype":
                    types = [5] if self.step_no % 2 else [self.ty(sorted(ts)[0]), "notatype"]
                elif flaw == "badcb":
                    kwargs["teardown_callback"] = "notcallable"
                if flaw != "none":
                    # a failing add carries a teardown callback too: it must never run
                    kwargs.setdefault("teardown_callback", lambda: self.tdlog.append(("failed-add", c)))
                if self.shortcut(c):
                    import asphalt.core as ac
                    await self.via_agent(c, lambda: ac.add_resource(value, name, types, description="d", **kwargs))
                elif name == "default" and self.variant % 2 == 0:
                    ctx.add_resource(value, types=types, description="d", **kwargs)
                else:
                    ctx.add_resource(value, name, types, description="d", **kwargs)
                if isinstance(types, list):
                    self.to_clear.append(types)      # the caller goes on using (here: emptying) the list it passed - before the next step
                self.remember(value, cid)
                return "ok", cid
            if a == "AddFac":
                ts, n, asy, flaw = obs["ts"], obs["n"], obs["as"], obs["flaw"]
                fid = ("f", c, tuple(sorted(ts)), n, asy)
                me = self

                def make():
                    o = TY[sorted(ts)[0]]() if len(ts) == 1 else type("Both", (TY["T1"], TY["T2"]), {})()
                    me.calls[(fid, me.get_ctx)] += 1
                    me.generated = (o, fid)
                    me.remember(o, ("g", me.get_ctx, fid))
                    return o
                if asy:
                    async def acbk():
                        import anyio
                        o = make()
                        await anyio.sleep(0)
                        return o
                    shape = (self.variant + self.step_no) % 4
                    if shape == 0:
                        cbk = acbk
                    elif shape == 1:
                        def cbk():                 # plain function returning a coroutine
                            return acbk()
                    elif shape == 2:
                        import functools
                        cbk = functools.partial(lambda x: acbk(), 1)
                    else:
                        class _Callable:
                            async def __call__(self_inner):
                                return await acbk()
                        cbk = _Callable()
                else:
                    def cbk():
                        return make()
                kw = {"types": self.types_arg(ts)}
                name = n
                if flaw == "none" and self.variant % 2 == 1:
                    # types through the return annotation
                    from typing import Union
                    cls = [self.ty(t) for t in sorted(ts)]
                    try:
                        cbk.__annotations__ = {"return": cls[0] if len(cls) == 1 else Union[cls[0], cls[1]]}
                        kw = {}
                    except AttributeError:         # partial objects and callable instances carry no annotations
                        pass
                if flaw == "badname":
                    name = BAD_NAMES[self.step_no % len(BAD_NAMES)]
                elif flaw == "nonetype":
                    kw = {"types": [TY["T1"], None]}
                elif flaw == "notypes":
                    kw = {}
                if self.shortcut(c):
                    import asphalt.core as ac
                    await self.via_agent(c, lambda: ac.add_resource_factory(cbk, name, description="fd", **kw))
                else:
                    ctx.add_resource_factory(cbk, name, description="fd", **kw)
                if isinstance(kw.get("types"), list):
                    self.to_clear.append(kw["types"])     # the caller goes on using (here: emptying) the list it passed - before the next step
                return "ok", None
            if a == "Inject":
                return await self.inject_step(obs)
            if a == "Get":
                t, n, api, opt = obs["t"], obs["n"], obs["api"], obs["opt"]
                self.get_ctx, self.generated = c, None
                kw = {}
                if opt or self.variant % 2 == 0:
                    kw["optional"] = opt
                args = (self.ty(t),) if (n == "default" and self.variant % 2 == 0) else (self.ty(t), n)
                if self.shortcut(c):
                    import asphalt.core as ac
                    if api == "sync":
                        v = await self.via_agent(c, lambda: ac.get_resource_nowait(*args, **kw))
                    else:
                        v = await self.via_agent(c, lambda: ac.get_resource(*args, **kw))
                    names_seen = await self.via_agent(c, lambda: sorted(ac.get_resources(TY[t])))
                    if names_seen != sorted(ctx.get_resources(TY[t])):
                        return "shortcut-get_resources-disagrees", None
                elif api == "sync":
                    v = ctx.get_resource_nowait(*args, **kw)
                else:
                    v = await ctx.get_resource(*args, **kw)
                if v is None:
                    return "None", None
                vid = self.ids.get(id(v), ("?", type(v).__name__))
                if self.generated is not None:
                    return "gen", vid
                return "val", vid
            raise core.MachineryError(f"unknown action {a}")
        except ResourceConflict:
            return "ResourceConflict", None
        except ResourceNotFound:
            return "ResourceNotFound", None
        except AsyncResourceError:
            return "AsyncResourceError", None
        except RuntimeError as e:
            return ("StackCorruption" if "stack corruption" in str(e).lower() else "RuntimeError"), None
        except (ValueError, TypeError):
            return "Invalid", None

    # ---- @inject: calls are made by an agent task spawned inside the context, whose current context is therefore c
    inject = False

    async def start_agent(self, c):
        import anyio
        send, recv = anyio.create_memory_object_stream(10)
        self.agents[c] = send

        async def agent():
            async with recv:
                async for fn, arg, box, done in recv:
                    try:
                        r = fn(arg)
                        if hasattr(r, "__await__"):
                            r = await r
                        box.append(("ret", r))
                    except BaseException as e:  # noqa: BLE001
                        box.append(("exc", e))
                        if isinstance(e, anyio.get_cancelled_exc_class()):
                            raise
                    finally:
                        done.set()
        self.tg.start_soon(agent)

    async def via_agent(self, c, thunk):
        """run thunk() in a task whose current context is c (module-level shortcut functions act on the current context)"""
        import anyio
        box, done = [], anyio.Event()
        await self.agents[c].send((lambda _arg: thunk(), None, box, done))
        await done.wait()
        kind, val = box[0]
        if kind == "exc":
            raise val
        return val

    def shortcut(self, c):
        """every other call of the Inject executor goes through the module-level shortcut of the same name"""
        return self.inject and c in self.agents and (self.variant + self.step_no) % 2 == 1 and not self.ctx[c].closed

    async def inject_step(self, obs):
        import anyio
        from asphalt.core import AsyncResourceError, ResourceNotFound
        fx = _fx()
        c, t, n, fk, opt = obs["c"], obs["t"], obs["n"], obs["api"], obs["opt"]
        fn, desc = fx.get(fk, t, n, opt, self.variant + self.step_no, self.variant // 2 + self.step_no)
        self.last_inject = desc
        self.get_ctx, self.generated = c, None
        body_before = len(fx.BODY)
        box, done = [], anyio.Event()
        token = ("pass", self.step_no)
        await self.agents[c].send((fn, token, box, done))
        await done.wait()
        kind, val = box[0]
        if kind == "exc":
            if len(fx.BODY) != body_before:
                return "body-ran-although-the-call-raised", None
            if isinstance(val, ResourceNotFound):
                return "ResourceNotFound", None
            if isinstance(val, AsyncResourceError):
                return "AsyncResourceError", None
            if isinstance(val, RuntimeError):
                return "RuntimeError", None
            return "raised:" + type(val).__name__, None
        if len(fx.BODY) != body_before + 1 or not isinstance(val, tuple) or val[0] != token or val[2] is not None:
            return "arguments-not-passed-through", None
        v = val[1]
        if v is None:
            return "None", None
        vid = self.ids.get(id(v), ("?", type(v).__name__))
        return ("gen" if self.generated is not None else "val"), vid

    async def explicit_lookup(self, obs):
        """what the explicit lookup gives right now in the real code (used to attribute an @inject difference)"""
        o = dict(obs, a="Get")
        return await Real.step(self, o)

    def projection(self):
        out = []
        for c in range(1, self.nctx + 1):
            if c not in self.ctx:
                out.append(None)
                continue
            row = {}
            for tn in ("T1", "T2"):
                TY[tn]
                got = self.ctx[c].get_resources(self.ty(tn))
                for n in self.names:
                    row[f"{tn}:{n}"] = self.ids.get(id(got[n]), ("?",)) if n in got else 0
                extra = set(got) - set(self.names)
                if extra:
                    row[f"{tn}:<extra>"] = tuple(sorted(extra))
            out.append((row, bool(self.ctx[c].closed)))
        return out

    async def finish(self):
        for c in sorted(self.ctx, reverse=True):
            ctx = self.ctx[c]
            try:
                if not ctx.closed:
                    await ctx.__aexit__(None, None, None)
            except BaseException:  # noqa: BLE001
                pass
        for sc in self.listeners.values():
            sc.cancel()
        for a in self.agents.values():
            a.close()


class Boom(Exception):
    """the exception with which a harness block ends (how = "exc")"""


class TdRaise(Exception):
    """raised by a teardown callback of kind "raises" """


def leaves(e):
    if isinstance(e, BaseExceptionGroup):
        for x in e.exceptions:
            yield from leaves(x)
    else:
        yield e


class RealLife(Real):
    """Life-cycle executor: every context is entered by a worker task with a real `async with`, so that blocks can end by
    return, exception or cancellation, and the context can be observed while its teardown is in progress (a probe callback
    registered just before the block ends parks the teardown until EndClose)."""

    def __init__(self, *a):
        super().__init__(*a)
        self.workers = {}

    async def step(self, obs):
        import anyio
        from asphalt.core import Context
        a, c = obs["a"], obs["c"]
        self.step_no += 1
        if a == "Create":
            p = obs["p"]
            ctx = Context(self.ctx[p]) if p else Context()
            self.ctx[c] = ctx
            await self.listen(c, ctx)
            return "ok", None
        ctx = self.ctx[c]
        if a == "Enter":
            if obs["r"] != "ok":
                # expected to be refused: must raise without any effect
                try:
                    await ctx.__aenter__()
                except RuntimeError:
                    return "RuntimeError", None
                return "ok", None
            w = {"cmd": anyio.Event(), "how": None, "release": anyio.Event(), "entered": anyio.Event(), "done": anyio.Event(), "exc": None,
                 "scope": anyio.CancelScope(), "enter_error": None}
            self.workers[c] = w

            async def worker():
                try:
                    with w["scope"]:
                        try:
                            async with ctx:
                                w["entered"].set()
                                await w["cmd"].wait()
                                if w["how"] == "exc":
                                    raise Boom(c)
                                if w["how"] == "cancel":
                                    await anyio.sleep_forever()
                        except RuntimeError as e:
                            if not w["entered"].is_set():
                                w["enter_error"] = e
                            else:
                                w["exc"] = e
                        except BaseException as e:  # noqa: BLE001
                            w["exc"] = e
                            if isinstance(e, anyio.get_cancelled_exc_class()):
                                raise
                finally:
                    w["entered"].set()
                    w["done"].set()
            self.tg.start_soon(worker)
            await w["entered"].wait()
            if w["enter_error"] is not None:
                return "RuntimeError", None
            return "ok", None
        if a == "BeginClose":
            w = self.workers[c]

            async def probe():
                with anyio.CancelScope(shield=True):
                    await w["release"].wait()
            ctx.add_teardown_callback(probe)
            w["how"] = obs["how"]
            w["cmd"].set()
            if obs["how"] == "cancel":
                await vclock.quiescent()
                w["scope"].cancel()
            return "ok", None
        if a == "EndClose":
            w = self.workers[c]
            w["release"].set()
            await w["done"].wait()
            e = w["exc"]
            if e is None:
                return ("cancel" if w["scope"].cancelled_caught else "return"), None
            lv = list(leaves(e))
            if any(isinstance(x, TdRaise) for x in lv):
                return "TeardownGroup", None
            if any(isinstance(x, RuntimeError) and "stack corruption" in str(x).lower() for x in lv):
                return "StackCorruption", None
            if e is not None and isinstance(e, Boom):
                return "exc", None
            if all(isinstance(x, anyio.get_cancelled_exc_class()) for x in lv):
                return "cancel", None
            if any(isinstance(x, Boom) for x in lv):
                return "exc-wrapped", None
            return "other:" + type(e).__name__, None
        if a == "AddTd":
            kind = obs["kind"]
            try:
                if kind == "bad":
                    ctx.add_teardown_callback("notcallable")
                    return "ok", None
                ident = (kind, c, obs["v"][2]) if "v" in obs else ("failed-add", c)
                pe = (self.variant + self.step_no) % 2 == 1

                def cb(*args, ident=ident):
                    self.tdlog.append(ident if len(args) == (1 if pe else 0) else ("wrong-arity", c))
                    if ident[0] == "raises":
                        raise TdRaise(ident)
                if self.variant % 3 == 0:
                    async def acb(*args):
                        cb(*args)              # log (and raise) before the checkpoint: the block may have been cancelled
                        await anyio.sleep(0)
                    ctx.add_teardown_callback(acb, pe)
                else:
                    ctx.add_teardown_callback(cb, pass_exception=pe)
                return "ok", None
            except RuntimeError:
                return "RuntimeError", None
            except (TypeError, ValueError):
                return "Invalid", None
        return await super().step(obs)

    async def finish(self):
        import anyio
        for c in sorted(self.workers, reverse=True):
            w = self.workers[c]
            if not w["done"].is_set():
                w["how"] = w["how"] or "return"
                w["cmd"].set()
                w["release"].set()
                w["scope"].cancel()
        for c in sorted(self.workers, reverse=True):
            with anyio.move_on_after(5):
                await self.workers[c]["done"].wait()
        for sc in self.listeners.values():
            sc.cancel()
        for a in self.agents.values():
            a.close()


def spec_projection(enc):
    cstate, _parent, resids = enc[0], enc[1], enc[2]
    out = []
    for i, cs in enumerate(cstate):
        if cs == "unborn":
            out.append(None)
            continue
        row = {k: (canon(v) if v != 0 else 0) for k, v in resids[i].items()}
        out.append((row, cs in ("closing", "closed")))
    return out


# ------------------------------------------------------------------------------------------------ attribution
def is_gen(x):
    return isinstance(x, tuple) and len(x) > 0 and x[0] == "g"


def attribute(obs, exp_r, got_r, what, detail):
    """-> set of property ids whose statement constrains the differing field"""
    a = obs["a"]
    props = set()
    life = "RuntimeError" in (exp_r, got_r)
    if what == "result":
        if isinstance(got_r, str) and got_r.startswith("unexpected:"):
            props.add("C13" if ("RuntimeError" in got_r or a in ("Create", "Enter", "BeginClose", "EndClose", "Close", "AddTd")) else "C03" if a in ("AddRes", "AddFac") else "C02")
        if life:
            props.add("C13")
        if "StackCorruption" in (exp_r, got_r):
            props.add("C13")
        if "ResourceConflict" in (exp_r, got_r) or (exp_r == "Invalid" and got_r == "ok"):
            props.add("C03")
        if "AsyncResourceError" in (exp_r, got_r):
            props.add("C04")
        if a == "Get" and not life:
            if {"gen"} & {exp_r, got_r}:
                props.add("C04")
            if {exp_r, got_r} & {"ResourceNotFound", "None", "val"} and "AsyncResourceError" not in (exp_r, got_r):
                props.add("C02")
        if a in ("Create", "Close") and not props:
            props.add("C13")
    elif what == "value":
        exp_v, got_v = detail
        if is_gen(exp_v) or is_gen(got_v):
            props.add("C04")
        props.update({"C03", "C02"})
    elif what == "calls":
        props.add("C04")
    elif what == "events":
        props.add("C18")
    elif what == "tdrun":
        props.add("C03" if any(x[0] == "failed-add" for x in detail[1]) or a != "Close" else "C01")
        if a == "Close":
            props.add("C01")
    elif what == "closed":
        props.add("C13")
    elif what == "proj":
        acted, involved_gen, failed = detail
        if not acted:
            props.add("C02")
            if involved_gen:
                props.add("C04")
        else:
            if failed:
                props.add("C03")
                if life:
                    props.add("C13")
            elif a in ("Create", "Enter"):
                props.add("C02")
                if involved_gen:
                    props.add("C04")
            elif a == "Get":
                props.update({"C04", "C03"})
            else:
                props.add("C03")
    return props


# ------------------------------------------------------------------------------------------------ the walk
class Mismatch:
    def __init__(self, props, what, obs, exp, got, path):
        self.props, self.what, self.obs, self.exp, self.got, self.path = props, what, obs, exp, got, path


def loop_obs(row):
    a = row[0]
    if a == "AddRes":
        return {"a": a, "c": row[1], "ts": row[2], "n": row[3], "cb": row[4], "flaw": row[5], "r": row[6], "ev": []}
    if a == "AddFac":
        return {"a": a, "c": row[1], "ts": row[2], "n": row[3], "as": row[4], "flaw": row[5], "r": row[6], "ev": []}
    if a == "Get":
        o = {"a": a, "c": row[1], "t": row[2], "n": row[3], "api": row[4], "opt": row[5], "r": row[6], "ev": []}
        if row[7] != 0:
            o["v"] = row[7]
        return o
    if a == "Inject":
        o = {"a": a, "c": row[1], "t": row[2], "n": row[3], "api": row[4], "opt": row[5], "r": row[6], "ev": []}
        if row[7] != 0:
            o["v"] = row[7]
        return o
    if a == "AddTd":
        return {"a": a, "c": row[1], "kind": row[2], "r": row[3], "ev": []}
    if a == "Enter":
        return {"a": a, "c": row[1], "r": row[2], "ev": []}
    raise core.MachineryError(f"unknown loop row {row}")


async def check_step(real: Real, obs, to_enc, before_proj, failed_expected):
    """execute obs on the real objects and compare everything observable; returns None or (what, exp, got, props)"""
    c = obs["c"]
    ev_before = {k: len(v) for k, v in real.events.items()}
    td_before = len(real.tdlog)
    calls_before = dict(real.calls)
    try:
        got_r, got_v = await real.step(obs)
    except Exception as e:  # noqa: BLE001 - the driver never dies: an unexpected exception out of a harness call is an observation
        got_r, got_v = "unexpected:" + type(e).__name__, None
    await vclock.quiescent()
    exp_r = obs["r"]
    if exp_r == "StackCorruptionOrOwn" and got_r in ("StackCorruption", obs.get("how")):
        exp_r = got_r
    if obs["a"] == "Inject":
        exp_v = canon(obs["v"]) if "v" in obs else None
        if got_r != exp_r or (exp_v is not None and got_v != exp_v):
            # C19 is the equivalence with the explicit lookup: ask the real explicit lookup what it gives now
            x_r, x_v = await real.explicit_lookup(obs)
            same = (x_r == got_r or (got_r == "gen" and x_r == "val")) and (x_v == got_v or got_v is None)
            props = attribute(dict(obs, a="Get"), exp_r, got_r, "result", None) if same else {"C19"}
            return "inject", (exp_r, exp_v), (got_r, got_v, real.last_inject, "explicit lookup:", x_r, x_v), props
    elif got_r != exp_r:
        return "result", exp_r, got_r, attribute(obs, exp_r, got_r, "result", None)
    if "v" in obs and obs["a"] == "Get":
        exp_v = canon(obs["v"])
        if got_v != exp_v:
            return "value", exp_v, got_v, attribute(obs, exp_r, got_r, "value", (exp_v, got_v))
    # (the events of the step are compared further down; a step that fails and nevertheless announces something breaks C18's clause
    # "calls that fail dispatch nothing" whatever else it did, so that is found out first)
    spurious_events = False
    if not obs.get("ev") and obs.get("r") in ("Invalid", "RuntimeError", "ResourceConflict"):
        for cc, log_ in real.events.items():
            if len(log_) > ev_before.get(cc, 0):
                spurious_events = True
    # projection of every context
    proj = real.projection()
    exp_proj = spec_projection(to_enc)
    for i, (e, g) in enumerate(zip(exp_proj, proj)):
        if e == g:
            continue
        cnum = i + 1
        if e is None or g is None:
            return "proj", e, g, {"C02"}
        if e[1] != g[1]:
            return "closed", (cnum, e[1]), (cnum, g[1]), attribute(obs, exp_r, got_r, "closed", None)
        involved = any(is_gen(x) for x in list(e[0].values()) + list(g[0].values()))
        props = attribute(obs, exp_r, got_r, "proj", (cnum == c, involved, failed_expected))
        # do the lookup paths disagree? get_resources() misses an entry that get_resource_nowait() still finds (or vice versa)
        try:
            ctxo = real.ctx[cnum]
            if not ctxo.closed or True:
                for k, want in e[0].items():
                    if want != 0 and g[0].get(k) != want and isinstance(want, tuple):
                        # (the table holds the entry according to the specification, so the lookup generates nothing)
                        tn, nm = k.split(":")
                        found = ctxo.get_resource_nowait(real.ty(tn), nm, optional=True)
                        if found is not None and real.ids.get(id(found)) == want:
                            props = {"C02"}
                            return ("lookup-paths-disagree", (cnum, k, "get_resource_nowait finds it"),
                                    (cnum, k, "get_resources does not list it" if g[0].get(k) == 0 else f"get_resources gives {g[0].get(k)}"), props)
        except Exception:  # noqa: BLE001
            pass
        return "proj", (cnum, e[0]), (cnum, g[0]), (set(props) | {"C18"} if spurious_events else props)
    # events
    exp_ev = [(e["c"], tuple(sorted(e["types"])), e["name"], bool(e["fac"]), True, True, e["desc"]) for e in obs.get("ev", [])]
    got_ev = []
    for cc, log in real.events.items():
        for ev in log[ev_before.get(cc, 0):]:
            got_ev.append(real.ev_tuple(cc, ev))
    if sorted(got_ev) != sorted(exp_ev):
        ok = False
        if obs["r"] == "gen" and len(got_ev) == 1 and len(exp_ev) == 1:
            # a generation that could not take all of the factory's keys may announce the registered subset instead
            free_types = tuple(sorted(k.split(":")[0] for k in obs.get("free", [])))
            ok = got_ev[0] == (exp_ev[0][0], free_types, exp_ev[0][2], False, True, True, exp_ev[0][6])
        if not ok:
            return "events", exp_ev, got_ev, attribute(obs, exp_r, got_r, "events", None)
    # teardown callbacks run by this step
    ran = real.tdlog[td_before:]
    exp_run = [canon(x) for x in obs.get("tdrun", [])]
    if [tuple(x) for x in ran] != exp_run:
        return "tdrun", exp_run, ran, attribute(obs, exp_r, got_r, "tdrun", (exp_run, ran))
    # factory calls: exactly one call for a generation, none otherwise
    delta = {k: real.calls[k] - calls_before.get(k, 0) for k in real.calls if real.calls[k] != calls_before.get(k, 0)}
    exp_delta = {(canon(obs["fid"]), c): 1} if obs["r"] == "gen" else {}
    if obs["r"] == "AsyncResourceError":
        delta = {}          # the sync API calls the async factory and closes the coroutine: the body never runs
    if delta != exp_delta:
        return "calls", exp_delta, delta, attribute(obs, exp_r, got_r, "calls", None)
    return None


_G = None      # the graph, shared with forked workers instead of being pickled


def _walk_part(args):
    import warnings
    warnings.simplefilter("ignore")          # the stalled listener's SignalQueueFull warnings are expected
    part, nparts, nctx, names, seed = args[:5]
    life = len(args) > 5 and args[5]
    inj = len(args) > 6 and args[6]
    Exec = RealLife if life else (type("RealInj", (Real,), {"inject": True}) if inj else Real)
    g = _G
    stats = collections.Counter()
    mism = []

    async def main():
        import anyio
        # BFS tree
        pred = {g.init: None}
        dq = collections.deque([g.init])
        while dq:
            s = dq.popleft()
            for obs, tk, _ in g.states[s]["edges"]:
                if tk not in pred:
                    pred[tk] = (s, obs)
                    dq.append(tk)

        def path_to(s):
            p = []
            while pred[s] is not None:
                s0, obs = pred[s]
                p.append((s0, obs, s))
                s = s0
            return p[::-1]

        own = [k for i, k in enumerate(g.order) if i % nparts == part]
        todo_loops = set(own)
        todo_edges = {k: list(range(len(g.states[k]["edges"]))) for k in own}
        queue = collections.deque(own)
        tour = 0
        async def one_tour(tg, target, tour):
            """a tour runs in a task of its own, so that it starts without a current context"""
            real = Exec(nctx, names, tour + seed, tg)
            trail = []
            bad = None
            cur = g.init
            for s0, obs, s1 in path_to(target):
                trail.append(obs)
                bad = await check_step(real, obs, g.states[s1]["enc"], None, False)
                stats["prefix_steps"] += 1
                if bad:
                    break
                cur = s1
            if bad:
                # the target cannot be reached faithfully: what lies behind stays unexamined (counted)
                stats["unexamined_states"] += 1
                stats["unexamined_ops"] += len(g.states[target]["loops"]) + len(todo_edges.get(target, []))
                todo_loops.discard(target)
                todo_edges[target] = []
                mism.append(Mismatch(bad[3], bad[0], obs, bad[1], bad[2], list(trail)))
                try:
                    await real.finish()
                except Exception:  # noqa: BLE001
                    pass
                return
            while True:
                st = g.states[cur]
                if cur in todo_loops:
                    todo_loops.discard(cur)
                    for row in st["loops"]:
                        lo = loop_obs(row)
                        bad = await check_step(real, lo, st["enc"], None, True)
                        stats["loops"] += 1
                        if bad:
                            mism.append(Mismatch(bad[3], bad[0], lo, bad[1], bad[2], list(trail)))
                            break
                    if bad:
                        break
                rem = todo_edges.get(cur)
                if not rem:
                    break
                i = rem.pop()
                obs, tk, tenc = st["edges"][i]
                trail.append(obs)
                bad = await check_step(real, obs, tenc, None, False)
                stats["edges"] += 1
                if bad:
                    mism.append(Mismatch(bad[3], bad[0], obs, bad[1], bad[2], list(trail)))
                    break
                cur = tk
            try:
                await real.finish()
            except Exception:  # noqa: BLE001
                pass
            stats["tours"] += 1

        async with anyio.create_task_group() as tg:
            while queue:
                target = queue[0]
                if target not in todo_loops and not todo_edges.get(target):
                    queue.popleft()
                    continue
                tour += 1
                done = anyio.Event()

                async def runner(target=target, tour=tour, done=done):
                    try:
                        await one_tour(tg, target, tour)
                    finally:
                        done.set()
                tg.start_soon(runner)
                await done.wait()
            tg.cancel_scope.cancel()

    vclock.run(main, backend="asyncio", seed=seed)
    return dict(stats), [(sorted(m.props), m.what, m.obs, repr(m.exp), repr(m.got), m.path) for m in mism]


def replay(cfg: str, nctx: int, names: list[str], seed: int, jobs: int | None = None):
    """-> (graph, tlc result, stats, mismatches)"""
    global _G
    g, res = dump_graph(cfg)
    _G = g
    jobs = jobs or core.NCPU
    t0 = time.time()
    parts = core.pmap(_walk_part, [(i, jobs, nctx, names, seed) for i in range(jobs)], chunks=1, jobs=jobs) if jobs > 1 else [_walk_part((0, 1, nctx, names, seed))]
    _G = None
    stats = collections.Counter()
    mism = []
    for st, mm in parts:
        stats.update(st)
        mism.extend(mm)
    stats["walk_wall_s"] = round(time.time() - t0, 1)
    return g, res, stats, mism


# ------------------------------------------------------------------------------------------------ property checks
TITLES = {
    "C02": "resource scoping: snapshot down, nothing up or sideways; lookup paths agree",
    "C03": "one resource per (type, name); conflicts raise; failed adds change nothing; handed-out objects are stable",
    "C04": "factory products are per-context singletons; not inherited, not visible upwards; AsyncResourceError registers nothing",
    "C13": "life cycle errors and the closed flag",
    "C18": "resource_added: exactly one event per publication, on the right context, none otherwise",
}


def _cfg_text(maxctx, maxregs, names, life=False, flaws=True, mc=False, inj=False):
    nm = "{" + ", ".join(f'"{n}"' for n in names) + "}"
    head = "INIT Init\nNEXT NextMC\n" if mc else "INIT InitP\nNEXT NextP\n"
    txt = head + f"VIEW View\nCONSTANTS\n  MaxCtx = {maxctx}\n  MaxRegs = {maxregs}\n  Names = {nm}\n  Life = {'TRUE' if life else 'FALSE'}\n  Flaws = {'TRUE' if flaws else 'FALSE'}\n  Inj = {'TRUE' if inj else 'FALSE'}\n"
    if mc:
        txt += ("INVARIANT TypeOK\nINVARIANT ScopedDown\nINVARIANT GenNotShared\nINVARIANT GenIsOwn\nPROPERTY Stable\nPROPERTY OnlyActedOn\n"
                "PROPERTY FailedChangesNothing\nPROPERTY Forward\nPROPERTY EventsRight\n")
    return txt + "CHECK_DEADLOCK FALSE\n"


def dump_graph_text(cfg_text: str, timeout=6000):
    res = tlc.run("MC_Ctx", cfg_text=cfg_text, workers=1, heap="12g", timeout=timeout, check=False)
    if res.error:
        raise core.MachineryError(f"MC_Ctx dump: {res.error}\n{res.out[-1500:]}")
    g = load_graph(res.out)
    if len(g.states) != res.distinct:
        raise core.MachineryError(f"MC_Ctx dump has {len(g.states)} states, TLC reports {res.distinct}")
    if any(s["loops"] is None for s in g.states.values()):
        raise core.MachineryError("MC_Ctx dump: state without an 's' line")
    return g, res


def _dump_job(args):
    return dump_graph_text(*args)


def ctx_check(prop: str, tier: str, seed: int) -> core.Report:
    global _G
    rep = core.Report(prop, tier, seed)
    # 1. the design: invariants and action properties of Ctx on the complete step relation
    if prop == "C13":
        mcb = [(2, 1, ["default"], True)] if tier == "quick" else [(2, 2, ["default"], True)]
        graphs = [(1, 2, ["default"], True), (2, 1, ["default"], True)] if tier == "quick" else [(1, 3, ["default"], True), (2, 2, ["default"], True)]
    else:
        mcb = [(2, 3, ["default"], False)] if tier == "quick" else [(3, 2, ["default"], False), (2, 3, ["default", "alt"], False)]
        graphs = [(2, 2, ["default"], False), (3, 1, ["default"], False), (1, 2, ["default"], True)] if tier == "quick" else \
                 [(2, 3, ["default"], False), (3, 1, ["default"], False), (2, 2, ["default", "alt"], False), (1, 2, ["default"], True), (2, 1, ["default"], True)]
        # (the graph with 3 contexts and 2 registrations does not fit: ~13 GB as Python objects, times 16 worker processes)
        if prop == "C02":
            # creation and entry of a child as separate steps (the snapshot is taken at creation)
            graphs.append((2, 1, ["default"], True))
            # the module-level shortcuts of the same names (calls made by a task whose current context is the acted-on context)
            graphs.append((2, 1, ["default", "alt"], "inj") if tier == "quick" else (2, 2, ["default", "alt"], "inj"))
    for (mc_, mr, nm, lf) in mcb:
        res = tlc.run("MC_Ctx", cfg_text=_cfg_text(mc_, mr, nm, life=lf, mc=True), workers=core.NCPU, big=True, heap="16g", timeout=3000, check=False)
        if res.error or res.invariant_violated or res.property_violated:
            raise core.MachineryError(f"Ctx.tla violates its own properties ({mc_},{mr}): {res.invariant_violated or res.error or 'action property'}\n{res.out[-1500:]}")
        rep.add_tlc(res, f"MC_Ctx MaxCtx={mc_} MaxRegs={mr} Names={nm} Life={lf}: ScopedDown, GenNotShared, GenIsOwn, Stable, OnlyActedOn, FailedChangesNothing, Forward, EventsRight")
    # 2. spec -> code: every state and transition of the bounded graphs replayed against real contexts
    if tier == "quick":
        dumps = core.pmap(_dump_job, [(_cfg_text(a, b, nm, life=(lf is True), inj=(lf == "inj")),) for a, b, nm, lf in graphs], chunks=1, jobs=len(graphs))
    else:
        # the bigger graphs one at a time: only one of them is held in memory (and shared with the forked walkers)
        dumps = (_dump_job((_cfg_text(a, b, nm, life=(lf is True), inj=(lf == "inj")),)) for a, b, nm, lf in graphs)
    total = collections.Counter()
    all_m = []
    for (a, b, nm, lf), (g, res) in zip(graphs, dumps):
        rep.add_tlc(res, f"MC_Ctx dump MaxCtx={a} MaxRegs={b} Names={nm} Life={lf} (state-changing transitions; outcomes that change nothing are listed per state)")
        _G = g
        t0 = time.time()
        jobs = core.NCPU
        parts = core.pmap(_walk_part, [(i, jobs, a, nm, seed, lf is True, lf == "inj") for i in range(jobs)], chunks=1, jobs=jobs)
        _G = None
        st = collections.Counter()
        for s_, mm in parts:
            st.update(s_)
            all_m.extend((f"{a}x{b}{'L' if lf is True else ('I' if lf else '')}", a, nm, lf, m) for m in mm)
        st["states"] = len(g.states)
        st["walk_wall_s"] = round(time.time() - t0, 1)
        rep.extra.setdefault("replay", []).append({"graph": f"MaxCtx={a} MaxRegs={b} Names={nm} Life={lf}", **st})
        total.update({k: v for k, v in st.items() if k != "walk_wall_s"})
        if not rep.samples:
            k = g.order[min(len(g.order) - 1, 57)]
            rep.samples.append({"state": g.states[k]["enc"], "transitions_out": [e[0] for e in g.states[k]["edges"][:2]], "outcomes_changing_nothing": g.states[k]["loops"][:4]})
    ops = total["edges"] + total["loops"]
    rep.traces_validated = total["tours"]
    rep.evaluations = ops + total["prefix_steps"]
    rep.distinct_nontrivial = ops
    rep.exhaustive = total.get("unexamined_ops", 0) == 0
    rep.rule = ("every state of the bounded Ctx graphs is visited; in it every operation whose outcome changes nothing (failing adds, conflicts, "
                "lookups, life-cycle errors) and every state-changing transition is executed once against real Context objects and compared "
                "(result, returned object, projection of all contexts, closed flags, events on all contexts, callbacks run, factory calls); "
                "distinct_nontrivial = number of distinct (state, operation) pairs examined, prefix steps not counted")
    rep.extra["unexamined_ops"] = total.get("unexamined_ops", 0)
    drift = 0
    for gname, nctx, nm, lf, (props, what, obs, exp, got, path) in all_m:
        if prop in props:
            pre = "x"
            sig = f"{prop}:{what}:{obs['a']}:{obs.get('r')}"
            rep.violations.append(core.Violation(prop, f"{what} after {obs['a']} (expected {exp}, observed {got})", sig,
                                                 {"graph": gname, "nctx": nctx, "names": nm, "life": lf, "path": path, "seed": seed}, {"expected": exp, "observed": got, "attributed_to": props}))
        else:
            drift += 1
    rep.extra["differences_attributed_to_other_properties"] = drift
    from . import suitectx
    if prop in suitectx.PROPS:
        suitectx.add_to(rep, prop)
    rep.assumptions = ["Life=FALSE graphs: contexts entered and left with __aenter__/__aexit__ from one task per tour; Life=TRUE graphs: one worker task per context with a real `async with`, blocks ending by return / exception / cancellation, teardown parked by a probe callback",
                       "identity of resources is Python object identity of harness objects; factories are observed through lookups only",
                       "exception classes for invalid names/values/types are not fixed by the statements: any ValueError/TypeError is accepted"]
    return rep


def ctx_replay_case(prop: str, scenario: dict):
    """re-execute one recorded path and report the first difference attributed to prop"""
    out = []

    async def main():
        import anyio
        async with anyio.create_task_group() as tg:
            done = anyio.Event()

            async def runner():
                try:
                    cls = RealLife if scenario.get("life") is True else (type("RealInj", (Real,), {"inject": True}) if scenario.get("life") == "inj" else Real)
                    real = cls(scenario["nctx"], scenario["names"], scenario.get("seed", 1), tg)
                    # without the graph only results can be compared: the recorded path carries the expected results
                    for obs in scenario["path"]:
                        got_r, got_v = await real.step(obs)
                        await vclock.quiescent()
                        if got_r != obs["r"]:
                            out.append(("result", obs, obs["r"], got_r))
                            break
                        if "v" in obs and obs["a"] == "Get" and got_v != canon(obs["v"]):
                            out.append(("value", obs, canon(obs["v"]), got_v))
                            break
                    await real.finish()
                finally:
                    done.set()
            tg.start_soon(runner)
            await done.wait()
            tg.cancel_scope.cancel()
    vclock.run(main, backend="asyncio", seed=1)
    return out
