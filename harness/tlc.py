"""Thin wrapper around TLC: run a module+cfg, parse summary statistics and PrintT JSON output."""
from __future__ import annotations

import json
import os
import re
import shutil
import subprocess
import tempfile
import time
from pathlib import Path

VERIF = Path(__file__).resolve().parent.parent
SPECS = VERIF / "specs"
# one scratch directory per top-level check process (forked workers inherit it), so that checks can run side by side
WORK = VERIF / ".work" / f"p{os.getpid()}"
JARS = "/opt/veriftools/tla/tla2tools.jar:/opt/veriftools/tla/CommunityModules-deps.jar"


class TLCError(Exception):
    """TLC failed for a reason that is not a property verdict (parse error, evaluation error, timeout)."""


class TLCResult:
    def __init__(self, out: str, wall: float, rc: int):
        self.out = out
        self.wall = wall
        self.rc = rc
        m = re.search(r"(\d+) states generated, (\d+) distinct states found", out)
        self.generated = int(m.group(1)) if m else 0
        self.distinct = int(m.group(2)) if m else 0
        m = re.search(r"The depth of the complete state graph search is (\d+)", out)
        self.depth = int(m.group(1)) if m else 0
        self.invariant_violated = re.findall(r"Invariant (\S+) is violated", out)
        self.property_violated = bool(re.search(r"Temporal properties were violated|Action property \S+ is violated", out))
        self.deadlock = "Deadlock reached" in out
        self.error = None
        if self.rc != 0 and not self.invariant_violated and not self.property_violated and not self.deadlock:
            m = re.search(r"Error: (.*)", out)
            self.error = m.group(1) if m else f"rc={rc}"

    def printed(self):
        """Yield python values for every line PrintT'ed as a JSON string (ToJson(...))."""
        for line in self.out.splitlines():
            if line.startswith('"{') or line.startswith('"['):
                try:
                    yield json.loads(json.loads(line))
                except Exception:
                    continue

    def tuples(self, tag: str):
        """Yield the fields of lines PrintT'ed as <<"TAG", ...>> (strings/numbers only)."""
        pat = re.compile(r'^<<"' + re.escape(tag) + r'", (.*)>>$')
        for line in self.out.splitlines():
            m = pat.match(line.strip())
            if m:
                try:
                    yield json.loads("[" + m.group(1) + "]")
                except Exception:
                    yield [m.group(1)]

    def coverage(self):
        """action name -> (distinct, total) from -coverage output."""
        cov = {}
        for m in re.finditer(r"<(\w+) line \d+, col \d+ to line \d+, col \d+ of module (\w+)>: (\d+):(\d+)", self.out):
            cov[m.group(1)] = (int(m.group(3)), int(m.group(4)))
        return cov


def workdir() -> Path:
    WORK.mkdir(parents=True, exist_ok=True)
    return Path(tempfile.mkdtemp(prefix="w", dir=WORK))


def cleanup(d: Path) -> None:
    shutil.rmtree(d, ignore_errors=True)


def run(module: str, cfg: str | None = None, *, workers: int = 1, env: dict | None = None, simulate: str | None = None,
        depth: int | None = None, seed: int | None = None, timeout: float = 600, heap: str = "2g", coverage: bool = False,
        extra: list[str] | None = None, cfg_text: str | None = None, big: bool = False, check: bool = True) -> TLCResult:
    """Run TLC on specs/<module>.tla (module may contain a subdirectory) with specs/<cfg>.cfg or literal cfg_text."""
    mod = SPECS / (module + ".tla")
    wd = workdir()
    try:
        if cfg_text is not None:
            cfgp = wd / (mod.stem + "_gen.cfg")
            cfgp.write_text(cfg_text)
        else:
            cfgp = SPECS / ((cfg or module) + ".cfg")
        gc = "-XX:+UseParallelGC" if big else "-XX:+UseSerialGC"
        libpath = os.pathsep.join(str(p) for p in [SPECS] + [d for d in SPECS.iterdir() if d.is_dir()])
        cmd = ["java", gc, f"-Xmx{heap}", f"-Djava.io.tmpdir={wd}", f"-DTLA-Library={libpath}", "-cp", JARS, "tlc2.TLC", "-workers", str(workers),
               "-metadir", str(wd / "meta"), "-noGenerateSpecTE", "-config", str(cfgp)]
        if simulate is not None:
            cmd += ["-simulate", simulate]
        if depth is not None:
            cmd += ["-depth", str(depth)]
        if seed is not None:
            cmd += ["-seed", str(seed)]
        if coverage:
            cmd += ["-coverage", "1"]
        if extra:
            cmd += extra
        cmd.append(str(mod))
        e = dict(os.environ)
        e.pop("JAVA_TOOL_OPTIONS", None)
        if env:
            e.update({k: str(v) for k, v in env.items()})
        t0 = time.time()
        try:
            p = subprocess.run(cmd, cwd=str(wd), env=e, capture_output=True, text=True, timeout=timeout)
        except subprocess.TimeoutExpired as ex:
            raise TLCError(f"TLC timed out after {timeout}s on {module}") from ex
        res = TLCResult(p.stdout + p.stderr, time.time() - t0, p.returncode)
        if check and res.error:
            tail = "\n".join(res.out.splitlines()[-40:])
            raise TLCError(f"TLC failed on {module}: {res.error}\n{tail}")
        return res
    finally:
        cleanup(wd)


def sany(module: str) -> bool:
    mod = SPECS / (module + ".tla")
    libpath = os.pathsep.join(str(p) for p in [SPECS] + [d for d in SPECS.iterdir() if d.is_dir()])
    p = subprocess.run(["java", "-XX:+UseSerialGC", f"-DTLA-Library={libpath}", "-cp", JARS, "tla2sany.SANY", str(mod)],
                       capture_output=True, text=True, cwd=str(mod.parent))
    ok = p.returncode == 0 and "Semantic errors" not in p.stdout and "Parse Error" not in p.stdout and "Fatal" not in p.stdout
    if not ok:
        print(p.stdout[-3000:])
    return ok
