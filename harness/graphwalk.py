"""Generic exhaustive walk of a TLC edge dump against real code (DESIGN §3.4).

Dump format (one worker, MC_* wrappers): a line {"s": state} announces the source state, followed by one line
{"obs": observation, "to": state} per outgoing transition. Every transition is executed once, reached through a checked prefix
(shortest path from the initial state); a tour is abandoned at its first difference."""
from __future__ import annotations

import collections
import json
import time

from . import core, vclock


class Graph:
    def __init__(self):
        self.states = {}
        self.init = None
        self.order = []

    @staticmethod
    def key(enc):
        return json.dumps(enc, sort_keys=True, separators=(",", ":"))


def load(out: str) -> Graph:
    g = Graph()
    cur = None
    for line in out.splitlines():
        if not line.startswith('"{'):
            continue
        rec = json.loads(json.loads(line))
        if "s" in rec:
            k = Graph.key(rec["s"])
            cur = g.states.setdefault(k, {"enc": rec["s"], "edges": []})
            g.order.append(k)
            if g.init is None:
                g.init = k
        else:
            tk = Graph.key(rec["to"])
            cur["edges"].append((rec["obs"], tk))
            if tk not in g.states:
                g.states[tk] = {"enc": rec["to"], "edges": []}
    return g


_G = None
_MAKE = None
_PRED = None
_OWNER = None


def _plan(g: Graph, depth: int = 3):
    """BFS tree, and an owner number per state: whole subtrees (below `depth`) belong to one partition, so that tours can go on"""
    pred = {g.init: None}
    level = {g.init: 0}
    anc = {g.init: g.init}
    dq = collections.deque([g.init])
    while dq:
        s = dq.popleft()
        for obs, tk in g.states[s]["edges"]:
            if tk not in pred:
                pred[tk] = (s, obs)
                level[tk] = level[s] + 1
                anc[tk] = tk if level[tk] <= depth else anc[s]
                dq.append(tk)
    ids = {}
    owner = {}
    for k in g.order:
        a = anc.get(k, k)
        owner[k] = ids.setdefault(a, len(ids))
    return pred, owner


def _walk_part(args):
    part, nparts, seed, backend = args
    g, make = _G, _MAKE
    stats = collections.Counter()
    mism = []

    async def main():
        import anyio
        pred = _PRED
        def path_to(s):
            p = []
            while pred[s] is not None:
                s0, obs = pred[s]
                p.append((obs, s))
                s = s0
            return p[::-1]

        own = [k for k in g.order if _OWNER.get(k, 0) % nparts == part]
        todo = {k: list(range(len(g.states[k]["edges"]))) for k in own}
        queue = collections.deque(own)
        tour = 0

        async def one_tour(tg, target, tour):
            ex = make(tg, tour + seed)
            trail = []
            cur = g.init
            bad = None
            for obs, s1 in path_to(target):
                trail.append(obs)
                try:
                    got = await ex.step(obs)
                    bad = ex.check(obs, g.states[s1]["enc"], got)
                except Exception as e:  # noqa: BLE001 - an unexpected exception out of a harness call is an observation
                    bad = ("unexpected-exception", "none", type(e).__name__, ex.props_for_unexpected(obs))
                stats["prefix_steps"] += 1
                if bad:
                    break
                cur = s1
            if bad:
                stats["unexamined_transitions"] += len(todo.get(target, []))
                todo[target] = []
                mism.append((sorted(bad[3]), bad[0], obs, repr(bad[1]), repr(bad[2]), list(trail)))
                await ex.finish()
                return
            while todo.get(cur):
                i = todo[cur].pop()
                obs, tk = g.states[cur]["edges"][i]
                trail.append(obs)
                try:
                    got = await ex.step(obs)
                    bad = ex.check(obs, g.states[tk]["enc"], got)
                except Exception as e:  # noqa: BLE001
                    bad = ("unexpected-exception", "none", type(e).__name__, ex.props_for_unexpected(obs))
                stats["edges"] += 1
                if bad:
                    mism.append((sorted(bad[3]), bad[0], obs, repr(bad[1]), repr(bad[2]), list(trail)))
                    break
                cur = tk
            await ex.finish()
            stats["tours"] += 1

        async with anyio.create_task_group() as tg:
            while queue:
                target = queue[0]
                if not todo.get(target):
                    queue.popleft()
                    continue
                tour += 1
                done = anyio.Event()

                async def runner(target=target, tour=tour, done=done):
                    try:
                        async with anyio.create_task_group() as tg2:
                            await one_tour(tg2, target, tour)
                            tg2.cancel_scope.cancel()
                    finally:
                        done.set()
                tg.start_soon(runner)
                await done.wait()

    vclock.run(main, backend=backend, seed=seed)
    return dict(stats), mism


def walk(g: Graph, make_executor, seed: int, backends=("asyncio",), jobs: int | None = None):
    """make_executor(tg, variant) -> object with async step(obs), check(obs, to_enc, got) -> None | (what, exp, got, props), async finish().
    Partitions are spread over the backends (a partition runs on one backend)."""
    global _G, _MAKE, _PRED, _OWNER
    _G, _MAKE = g, make_executor
    _PRED, _OWNER = _plan(g)
    jobs = jobs or core.NCPU
    t0 = time.time()
    parts = core.pmap(_walk_part, [(i, jobs, seed, backends[i % len(backends)]) for i in range(jobs)], chunks=1, jobs=jobs)
    _G = _MAKE = _PRED = _OWNER = None
    stats = collections.Counter()
    mism = []
    for st, mm in parts:
        stats.update(st)
        mism.extend(mm)
    stats["walk_wall_s"] = round(time.time() - t0, 1)
    return stats, mism
