------------------------------- MODULE Config -------------------------------
(* Configuration layer of asphalt: merge_config (C17), the `asphalt run` pipeline (C16) and the layering of
   component configuration (C14), as pure operators over tagged values.

   A value is a record   [t |-> "s", v |-> string]  string scalar
                         [t |-> "i", v |-> int]     integer scalar
                         [t |-> "b", v |-> bool]    boolean scalar
                         [t |-> "n"]                None
                         [t |-> "l", v |-> seq]     list of values
                         [t |-> "d", v |-> dict]    dictionary: a function from a finite set of strings to values
   Tagging avoids comparing values of different shapes (a TLC evaluation error).                                *)
EXTENDS Naturals, Sequences, FiniteSets, TLC

IsD(x) == x.t = "d"
D(f) == [t |-> "d", v |-> f]
NoneV == [t |-> "n"]
Empty == <<>>                                   \* the empty dictionary (empty function)
With(f, k, x) == [j \in DOMAIN f \cup {k} |-> IF j = k THEN x ELSE f[j]]
Without(f, k) == [j \in DOMAIN f \ {k} |-> f[j]]

(* Structural equality that never compares values of different shapes (observed values come from JSON, where an empty
   dictionary is an empty record while the specification builds empty functions).                                 *)
RECURSIVE EqV(_, _)
EqD(f, g) == DOMAIN f = DOMAIN g /\ \A k \in DOMAIN f : EqV(f[k], g[k])
EqV(x, y) == /\ x.t = y.t
             /\ CASE x.t = "d" -> EqD(x.v, y.v)
                  [] x.t = "l" -> Len(x.v) = Len(y.v) /\ \A i \in 1..Len(x.v) : EqV(x.v[i], y.v[i])
                  [] x.t = "n" -> TRUE
                  [] OTHER -> x.v = y.v

(* ---- merge_config (src/asphalt/core/_utils.py) ---------------------------------------------------------- *)
RECURSIVE Merge(_, _)
Merge(a, b) ==
  [k \in DOMAIN a \cup DOMAIN b |->
     IF k \notin DOMAIN b THEN a[k]
     ELSE IF k \in DOMAIN a /\ IsD(a[k]) /\ IsD(b[k]) THEN D(Merge(a[k].v, b[k].v))
     ELSE b[k]]

\* top-level call: either argument may be None, which behaves like the empty dictionary
AsDict(x) == IF IsD(x) THEN x.v ELSE Empty
MergeCfg(A, B) == Merge(AsDict(A), AsDict(B))

RECURSIVE FoldMerge(_, _)
FoldMerge(acc, seq) == IF seq = <<>> THEN acc ELSE FoldMerge(Merge(acc, Head(seq)), Tail(seq))

(* ---- --set overrides (src/asphalt/core/_cli.py) --------------------------------------------------------- *)
\* path: non-empty sequence of keys (already split). Result: [ok, cfg]; an intermediate non-mapping aborts the command.
RECURSIVE SetPath(_, _, _)
SetPath(cfg, path, val) ==
  IF Len(path) = 1 THEN [ok |-> TRUE, cfg |-> With(cfg, path[1], val)]
  ELSE LET k == path[1] IN
       IF k \in DOMAIN cfg /\ ~IsD(cfg[k]) THEN [ok |-> FALSE, cfg |-> cfg]
       ELSE LET sub == IF k \in DOMAIN cfg THEN cfg[k].v ELSE Empty
                r == SetPath(sub, Tail(path), val) IN
            IF r.ok THEN [ok |-> TRUE, cfg |-> With(cfg, k, D(r.cfg))] ELSE [ok |-> FALSE, cfg |-> cfg]

\* split of an override key at unescaped dots; chars is a sequence of one-character strings. "\." is a literal dot.
RECURSIVE SplitKey(_, _, _)
SplitKey(chars, cur, acc) ==
  IF chars = <<>> THEN Append(acc, cur)
  ELSE IF Head(chars) = "\\" /\ Len(chars) >= 2 /\ chars[2] = "." THEN SplitKey(Tail(Tail(chars)), cur \o ".", acc)
  ELSE IF Head(chars) = "." THEN SplitKey(Tail(chars), "", Append(acc, cur))
  ELSE SplitKey(Tail(chars), cur \o Head(chars), acc)
Split(chars) == SplitKey(chars, "", <<>>)

\* an override is [path, val] (key already split), [chars, val] (raw key text) or [noeq |-> TRUE] (no "=": aborts the command)
PathOf(s) == IF "chars" \in DOMAIN s THEN Split(s.chars) ELSE s.path
RECURSIVE ApplySets(_, _)
ApplySets(cfg, sets) ==
  IF sets = <<>> THEN [ok |-> TRUE, cfg |-> cfg]
  ELSE IF "noeq" \in DOMAIN Head(sets) THEN [ok |-> FALSE, cfg |-> cfg]
  ELSE LET r == SetPath(cfg, PathOf(Head(sets)), Head(sets).val) IN
       IF r.ok THEN ApplySets(r.cfg, Tail(sets)) ELSE r

(* ---- the `asphalt run` pipeline ------------------------------------------------------------------------- *)
Err(w) == [kind |-> "error", why |-> w]
RunPipeline(files, sets, flag, env) ==
  LET merged == FoldMerge(Empty, files)
      r == ApplySets(merged, sets) IN
  IF ~r.ok THEN Err("override-through-non-mapping")
  ELSE
  LET cfg0 == r.cfg
      servicesV == IF "services" \in DOMAIN cfg0 THEN cfg0["services"] ELSE D(Empty) IN
  IF ~IsD(servicesV) THEN Err("services-not-a-dict")
  ELSE
  LET cfg1 == Without(cfg0, "services")
      hasComp == "component" \in DOMAIN cfg1 IN
  \* a top-level component together with services.default: neither the statement nor the documentation decides
  IF hasComp /\ "default" \in DOMAIN servicesV.v THEN [kind |-> "unspecified"]
  ELSE
  LET
      services == IF hasComp /\ "default" \notin DOMAIN servicesV.v
                  THEN With(servicesV.v, "default", D([x \in {"component"} |-> cfg1["component"]]))
                  ELSE servicesV.v
      cfg2 == IF hasComp THEN Without(cfg1, "component") ELSE cfg1
      sel == IF flag # "" THEN flag ELSE env IN
  IF DOMAIN services = {} THEN Err("no-services")
  ELSE IF sel # "" /\ sel \notin DOMAIN services THEN Err("service-not-found")
  ELSE IF sel = "" /\ Cardinality(DOMAIN services) > 1 /\ "default" \notin DOMAIN services THEN Err("ambiguous-service")
  ELSE
  LET name == IF sel # "" THEN sel ELSE IF Cardinality(DOMAIN services) = 1 THEN CHOOSE k \in DOMAIN services : TRUE ELSE "default"
      svc == services[name] IN
  IF ~IsD(svc) THEN Err("service-not-a-dict")
  ELSE
  LET final == Merge(cfg2, svc.v) IN
  IF "component" \notin DOMAIN final \/ ~IsD(final["component"]) THEN Err("no-component")
  ELSE IF "type" \notin DOMAIN final["component"].v THEN Err("no-type")
  ELSE [kind |-> "launch", type |-> final["component"].v["type"], comp |-> Without(final["component"].v, "type"),
        top |-> Without(final, "component")]

\* the keyword arguments of run_application: the remaining top-level keys, with the two defaults the command fills in
LaunchKwargs(top) ==
  LET t1 == IF "backend" \in DOMAIN top THEN top ELSE With(top, "backend", [t |-> "s", v |-> "asyncio"])
  IN IF "backend_options" \in DOMAIN t1 THEN t1 ELSE With(t1, "backend_options", D(Empty))

(* ---- component configuration layering (src/asphalt/core/_component.py: add_component, _init_component) ---- *)
\* classes: class name -> sequence of hard-coded children [alias, type, cfg] (type = NoneV when omitted: defaults to the alias)
\* names:   string -> [kind, name]: how an alias / type string reads: the class it names and the resource-name suffix
\*          after "/" ("" when there is none). The concrete "kind/name" syntax is rendered by the driver.
\* A type is [t |-> "c", v |-> class name] (a class object) or [t |-> "s", v |-> string] (entry point, module:attr, alias).
ClassOf(names, tv) == IF tv.t = "c" THEN tv.v ELSE names[tv.v].kind
HardDict(hard) ==
  [a \in {hard[i].alias : i \in DOMAIN hard} |->
     LET i == CHOOSE i \in DOMAIN hard : hard[i].alias = a
     IN D(With(hard[i].cfg, "type", IF hard[i].type.t = "n" THEN [t |-> "s", v |-> a] ELSE hard[i].type))]
\* the nodes that start_component(cls, cfg) must construct, as a function path -> [path, cls, kwargs, drn]
\* (drn = default resource name). A function rather than a set: TLC cannot order records whose fields have different shapes.
RECURSIVE Nodes(_, _, _, _, _, _), KidNodes(_, _, _, _, _)
KidNodes(classes, names, path, merged, todo) ==
  IF todo = {} THEN Empty
  ELSE LET a == CHOOSE a \in todo : TRUE
           cc == IF IsD(merged[a]) THEN merged[a].v ELSE Empty
           tv == IF "type" \in DOMAIN cc THEN cc["type"] ELSE [t |-> "s", v |-> a]
       IN Nodes(classes, names, IF path = "" THEN a ELSE path \o "." \o a, ClassOf(names, tv), Without(cc, "type"),
                IF names[a].name = "" THEN "default" ELSE names[a].name)
          @@ KidNodes(classes, names, path, merged, todo \ {a})
Nodes(classes, names, path, cls, cfg, drn) ==
  LET ext == IF "components" \in DOMAIN cfg /\ IsD(cfg["components"]) THEN cfg["components"].v ELSE Empty
      kwargs == Without(cfg, "components")
      merged == Merge(HardDict(classes[cls]), ext)
  IN (path :> [path |-> path, cls |-> cls, kwargs |-> kwargs, drn |-> drn]) @@ KidNodes(classes, names, path, merged, DOMAIN merged)
BuildTree(classes, names, rootcls, cfg) == Nodes(classes, names, "", rootcls, cfg, "default")
\* names under which a component's additions must appear in the surrounding context
Published(node) == [prep |-> {"default"}, start |-> {node.drn}, named |-> {"ex"}, fac |-> {node.drn}]
=============================================================================
