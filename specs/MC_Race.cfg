INIT Init
NEXT Next
CONSTANTS
  N = 3
  MaxFails = 1
INVARIANT MonOk
INVARIANT OncePerContext
INVARIANT SameInContext
INVARIANT OwnPerContext
INVARIANT NoLostWaiter
INVARIANT Dump
CHECK_DEADLOCK FALSE
