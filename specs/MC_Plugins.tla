----------------------------- MODULE MC_Plugins -----------------------------
(* Every sequence of at most two operations (resolve / create_object) on one fresh container over a family of references:
   TLC checks the statement's equivalence on the specification and prints (operations, expected results) for the replay. *)
EXTENDS Plugins, Json
Plain(s) == [k |-> "plain", s |-> s]
Ref(m, p) == [k |-> "ref", mod |-> m, path |-> p]
O(i) == [k |-> "obj", id |-> i]
F == "verif_plug_fixture"
Inputs == {Plain("good"), Plain("inner"), Plain("other"), Plain("func"), Plain("noattr"), Plain("nomod"), Plain("unknown"),
           Ref(F, <<"Good">>), Ref(F, <<"Good", "Inner">>), Ref(F, <<"Good", "Inner", "deep">>), Ref(F, <<"Other">>), Ref(F, <<"func">>), Ref(F, <<"VALUE">>),
           Ref(F, <<"Missing">>), Ref(F, <<"Good", "Missing">>), Ref(F, <<"">>), Ref(F, <<"Good:Inner">>), Ref("verif_no_such_module", <<"X">>),
           O("Good"), O("Other"), O("VALUE"), O("func")}
Ops == {[op |-> o, x |-> x] : o \in {"resolve", "create"}, x \in Inputs}
VARIABLES prog, done
vars == <<prog, done>>
Init == prog \in (Ops \cup {<<>>}) \X Ops /\ done = FALSE
Next == ~done /\ done' = TRUE /\ UNCHANGED prog
Apply(cache, o) == IF o.op = "resolve" THEN Resolve(cache, o.x) ELSE Create(cache, o.x)
Expected == LET first == IF prog[1] = <<>> THEN << <<>>, {} >> ELSE Apply({}, prog[1])
                second == Apply(first[2], prog[2]) IN
            <<first[1], second[1]>>
Dump == done => PrintT(ToJson([prog |-> prog, exp |-> Expected, names |-> EPNames]))
EquivalentOk == Equivalent
OnlySubclassesOk == OnlySubclasses
=============================================================================
