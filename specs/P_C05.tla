------------------------------- MODULE P_C05 -------------------------------
(* C05 as a monitor over one start_component call (p = the program: n, par, hp, hs):
     ctor(c) prepare.begin/end(c) start.begin/end(c) sc.return(ok)   life of the component tree
     q(gates)       quiescent point; gates = components parked at a harness gate
     stuck          nothing can run and the driver has nothing left to release
     reg(id) / ctx.exit.begin / td(id) / ctx.exit.end / visible(want, got)   ownership by the surrounding context        *)
EXTENDS Naturals, Sequences, FiniteSets
MonInit == [ctor |-> {}, pb |-> {}, pe |-> {}, sb |-> {}, se |-> {}, ret |-> FALSE, regs |-> <<>>, tds |-> <<>>, exiting |-> FALSE,
            ok |-> TRUE, why |-> "", hits |-> {}]
Fail(m, w) == [m EXCEPT !.ok = FALSE, !.why = w]
Hit(m, h) == [m EXCEPT !.hits = @ \cup {h}]
Comps(p) == 1..p.n
RECURSIVE Anc(_, _)
Anc(p, c) == IF p.par[c] = 0 THEN {} ELSE {p.par[c]} \cup Anc(p, p.par[c])
Desc(p, c) == {d \in Comps(p) : c \in Anc(p, d)}
AncPrepared(p, m, c) == \A a \in Anc(p, c) : p.hp[a] => a \in m.pe
Rev(s) == [i \in 1..Len(s) |-> s[Len(s) + 1 - i]]
Range(q) == {q[i] : i \in DOMAIN q}
MonNext(p, m, e) ==
  IF ~m.ok THEN m ELSE
  CASE e.ev = "ctor" ->
         IF m.pb \cup m.sb # {} THEN Fail(m, "component-constructed-after-a-prepare-or-start-ran")
         ELSE IF e.c \in m.ctor THEN Fail(m, "component-constructed-twice") ELSE [m EXCEPT !.ctor = @ \cup {e.c}]
    [] e.ev = "prepare.begin" ->
         IF m.ctor # Comps(p) THEN Fail(m, "prepare-before-the-whole-hierarchy-was-constructed")
         ELSE IF e.c \in m.pb THEN Fail(m, "prepare-called-twice")
         ELSE IF ~AncPrepared(p, m, e.c) THEN Fail(m, "child-began-before-its-parents-prepare-completed")
         ELSE [Hit(m, "prepare") EXCEPT !.pb = @ \cup {e.c}]
    [] e.ev = "prepare.end" -> IF e.c \notin m.pb \/ e.c \in m.pe THEN Fail(m, "prepare-end-unmatched") ELSE [m EXCEPT !.pe = @ \cup {e.c}]
    [] e.ev = "start.begin" ->
         IF m.ctor # Comps(p) THEN Fail(m, "start-before-the-whole-hierarchy-was-constructed")
         ELSE IF e.c \in m.sb THEN Fail(m, "start-called-twice")
         ELSE IF p.hp[e.c] /\ e.c \notin m.pe THEN Fail(m, "start-before-own-prepare-completed")
         ELSE IF ~AncPrepared(p, m, e.c) THEN Fail(m, "child-began-before-its-parents-prepare-completed")
         ELSE IF \E d \in Desc(p, e.c) : (p.hs[d] /\ d \notin m.se) \/ (p.hp[d] /\ d \notin m.pe) THEN Fail(m, "start-before-every-descendant-had-started")
         ELSE [Hit(m, IF Desc(p, e.c) # {} THEN "start-after-descendants" ELSE "start-leaf") EXCEPT !.sb = @ \cup {e.c}]
    [] e.ev = "start.end" -> IF e.c \notin m.sb \/ e.c \in m.se THEN Fail(m, "start-end-unmatched") ELSE [m EXCEPT !.se = @ \cup {e.c}]
    [] e.ev = "sc.return" ->
         IF \E c \in Comps(p) : (p.hp[c] /\ c \notin m.pe) \/ (p.hs[c] /\ c \notin m.se) THEN Fail(m, "start_component-returned-before-every-method-had-run")
         ELSE IF ~e.ok THEN Fail(m, "start_component-returned-something-else-than-the-root-instance") ELSE [Hit(m, "returned") EXCEPT !.ret = TRUE]
    [] e.ev = "q" ->
         \* siblings start concurrently: once a parent's prepare() is over (and everything above it), every child that has a
         \* prepare() has begun it by the next quiescent point
         IF ~m.ret /\ m.ctor = Comps(p) /\ (\E d \in Comps(p) : p.hp[d] /\ d \notin m.pb /\ AncPrepared(p, m, d)
                                              /\ (p.par[d] = 0 \/ (p.hp[p.par[d]] => p.par[d] \in m.pe)))
         THEN Fail(m, "siblings-not-started-concurrently")
         ELSE IF ~m.ret /\ m.ctor = Comps(p) /\ (\E d \in Comps(p) : ~p.hp[d] /\ p.hs[d] /\ Desc(p, d) = {} /\ d \notin m.sb /\ AncPrepared(p, m, d))
         THEN Fail(m, "siblings-not-started-concurrently")
         ELSE Hit(m, "q")
    \* nothing was made to fail and no timeout is set: start_component has no reason to raise
    [] e.ev = "sc.raise" -> IF p.fail.c = 0 /\ ~p.timeout THEN Fail(m, "start_component-raised-although-no-component-failed") ELSE m
    [] e.ev = "stuck" -> IF p.acyclic THEN Fail(m, "acyclic-resource-dependencies-did-not-complete") ELSE m
    [] e.ev = "reg" -> [m EXCEPT !.regs = Append(@, e.id)]
    [] e.ev = "visible" -> IF Range(e.want) \subseteq Range(e.got) THEN Hit(m, "visible") ELSE Fail(m, "registered-resource-not-visible-in-the-surrounding-context")
    [] e.ev = "ctx.exit.begin" -> [m EXCEPT !.exiting = TRUE]
    [] e.ev = "td" -> IF ~m.exiting THEN Fail(m, "teardown-callback-ran-before-the-surrounding-context-was-left") ELSE [m EXCEPT !.tds = Append(@, e.id)]
    [] e.ev = "ctx.exit.end" -> IF m.tds # Rev(m.regs) THEN Fail(m, "registered-callbacks-not-torn-down-in-reverse-order-with-the-context") ELSE Hit(m, "torn-down")
    [] OTHER -> m
=============================================================================
