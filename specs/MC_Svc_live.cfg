SPECIFICATION Spec
CONSTANTS
  MaxItems = 3
  MaxSvc = 2
PROPERTY Ends
CHECK_DEADLOCK FALSE
