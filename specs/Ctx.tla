-------------------------------- MODULE Ctx --------------------------------
(* Contexts of asphalt (src/asphalt/core/_context.py): the tree of contexts, the per-context resource and resource-factory
   tables, the life cycle inactive -> open -> closing -> closed, teardown-callback registration through add_resource and
   add_teardown_callback, and the resource_added events of every step. One action per public operation; every operation is
   total (it has a defined result, including the error results, in every state).

   Identities are canonical, never counted: a static value is <<"s", context, type set, name>>, a factory
   <<"f", context, type set, name, async>>, a generated value <<"g", context, factory id>> (a context generates from a
   factory at most once). Tables are keyed by the string "Type:name".

   Switches: Life = FALSE merges create+enter and makes exits atomic (resource-scoping configs);
             Life = TRUE models creation, entry, the start and the end of teardown separately (life-cycle configs).   *)
EXTENDS Naturals, Sequences, FiniteSets, TLC, SequencesExt
CONSTANTS MaxCtx,      \* contexts 1..MaxCtx; context 1 is the root, created first
          MaxRegs,     \* budget of successful registrations (add_resource / add_resource_factory / add_teardown_callback)
          Names,       \* resource names in play
          Life,        \* see above
          Flaws,       \* include deliberately invalid add calls
          Inj          \* include calls of @inject-decorated functions (current context = the acted-on context)
Types == {"T1", "T2"}
TypeSets == (SUBSET Types) \ {{}}
Ctxs == 1..MaxCtx
Key(t, n) == t \o ":" \o n
Keys == {Key(t, n) : t \in Types, n \in Names}
KeysOf(ts, n) == {Key(t, n) : t \in ts}
NoneR == [none |-> TRUE]
IsNone(x) == "none" \in DOMAIN x

VARIABLES cstate,   \* [Ctxs -> {"unborn", "inactive", "open", "closing", "closed"}]
          parent,   \* [Ctxs -> 0..MaxCtx]
          res,      \* [Ctxs -> [Keys -> NoneR | [id, types, name, gen]]]
          fac,      \* [Ctxs -> [Keys -> NoneR | [id, types, name, async]]]
          td,       \* [Ctxs -> Seq(callback ids)]      teardown stack, in registration order
          ending,   \* [Ctxs -> "" | "return" | "exc" | "cancel"]  how the block of a closing/closed context ended
          regs,     \* number of successful registrations so far
          obs       \* the observable outcome of the last step (hidden from the state by VIEW)
core == <<cstate, parent, res, fac, td, ending, regs>>
vars == <<core, obs>>

Init == /\ cstate = [c \in Ctxs |-> "unborn"]
        /\ parent = [c \in Ctxs |-> 0]
        /\ res = [c \in Ctxs |-> [k \in Keys |-> NoneR]]
        /\ fac = [c \in Ctxs |-> [k \in Keys |-> NoneR]]
        /\ td = [c \in Ctxs |-> <<>>]
        /\ ending = [c \in Ctxs |-> ""]
        /\ regs = 0
        /\ obs = [a |-> "init"]

Usable(c) == cstate[c] \in {"open", "closing"}          \* from entry until the end of teardown
Born(c) == cstate[c] # "unborn"
OpenKids(c) == {d \in Ctxs : parent[d] = c /\ cstate[d] \in {"open", "closing"}}
Rev(s) == [i \in 1..Len(s) |-> s[Len(s) + 1 - i]]
\* desc: the description the event must carry ("d": given to add_resource, "fd": given to add_resource_factory - a generated
\* resource is announced with its factory's description)
Ev(c, ts, n, isfac) == [c |-> c, types |-> ts, name |-> n, fac |-> isfac, desc |-> IF isfac THEN "fd" ELSE "d"]
EvGen(c, ts, n) == [c |-> c, types |-> ts, name |-> n, fac |-> FALSE, desc |-> "fd"]

(* Context.__init__: the child takes a snapshot of the parent's non-generated resources and of its factory table *)
Snapshot(p) == [k \in Keys |-> IF ~IsNone(res[p][k]) /\ ~res[p][k].gen THEN res[p][k] ELSE NoneR]
CreateAt(c, p) ==
  /\ cstate' = [cstate EXCEPT ![c] = IF Life THEN "inactive" ELSE "open"]
  /\ parent' = [parent EXCEPT ![c] = p]
  /\ res' = [res EXCEPT ![c] = IF p = 0 THEN res[c] ELSE Snapshot(p)]
  /\ fac' = [fac EXCEPT ![c] = IF p = 0 THEN fac[c] ELSE fac[p]]
  /\ UNCHANGED <<td, ending, regs>>
  /\ obs' = [a |-> "Create", c |-> c, p |-> p, r |-> "ok", ev |-> <<>>]
\* the bounded models create contexts in order, context 1 as the only root, under a usable parent; recorded executions
\* (Trace_CtxSuite) use CreateAt directly: any number of roots, any already created parent
Create(c, p) ==
  /\ cstate[c] = "unborn" /\ (IF c = 1 THEN TRUE ELSE Born(c - 1))
  /\ IF c = 1 THEN p = 0 ELSE p \in 1..(c - 1) /\ Usable(p)
  /\ CreateAt(c, p)

(* Context.__aenter__: only an inactive context can be entered *)
EnterO(c) == [a |-> "Enter", c |-> c, ev |-> <<>>, r |-> IF cstate[c] = "inactive" THEN "ok" ELSE "RuntimeError"]
Enter(c) ==
  /\ Life /\ Born(c) /\ obs' = EnterO(c)
  /\ IF obs'.r = "ok" THEN cstate' = [cstate EXCEPT ![c] = "open"] /\ UNCHANGED <<parent, res, fac, td, ending, regs>>
     ELSE UNCHANGED core

(* leaving the block. Life = FALSE: one step, clean exit, all callbacks run in reverse registration order.
   Leaving while an entered child is still open is reported as an error (the context is closed nevertheless).       *)
Close(c) ==
  /\ ~Life /\ cstate[c] = "open"
  /\ cstate' = [cstate EXCEPT ![c] = "closed"]
  /\ td' = [td EXCEPT ![c] = <<>>]
  /\ ending' = [ending EXCEPT ![c] = "return"]
  /\ UNCHANGED <<parent, res, fac, regs>>
  /\ obs' = [a |-> "Close", c |-> c, r |-> IF OpenKids(c) = {} THEN "ok" ELSE "StackCorruption", tdrun |-> Rev(td[c]), ev |-> <<>>]

(* Life = TRUE: the block ends (how), teardown begins; the context is `closing` while callbacks run *)
BeginClose(c, how) ==
  /\ Life /\ cstate[c] = "open"
  /\ cstate' = [cstate EXCEPT ![c] = "closing"]
  /\ ending' = [ending EXCEPT ![c] = how]
  /\ UNCHANGED <<parent, res, fac, td, regs>>
  /\ obs' = [a |-> "BeginClose", c |-> c, how |-> how, r |-> "ok", ev |-> <<>>]
(* ... the remaining callbacks run, last registered first, including those registered during teardown *)
EndClose(c) ==
  /\ Life /\ cstate[c] = "closing"
  /\ cstate' = [cstate EXCEPT ![c] = "closed"]
  /\ td' = [td EXCEPT ![c] = <<>>]
  /\ UNCHANGED <<parent, res, fac, ending, regs>>
  /\ obs' = [a |-> "EndClose", c |-> c, how |-> ending[c], tdrun |-> Rev(td[c]), ev |-> <<>>,
             r |-> IF \E i \in DOMAIN td[c] : td[c][i][1] = "raises" THEN "TeardownGroup"
                   \* a block that already ends with an exception or cancellation may report either that or the open child
                   ELSE IF OpenKids(c) # {} THEN (IF ending[c] = "return" THEN "StackCorruption" ELSE "StackCorruptionOrOwn")
                   ELSE ending[c]]

(* Every operation is written as a state function XxxO(args) giving its observable outcome in the current state, and an
   action Xxx(args) that records the outcome and changes the state exactly when the outcome is a success ("ok" / "gen").
   Outcomes that change nothing are also collected by LoopObs, so that a driver can try all of them in every state.      *)

(* Context.add_resource(value, name, types, teardown_callback=cb).  flaw: "badname" | "nonevalue" | "badtype" | "badcb" *)
AddResO(c, ts, n, cb, flaw) ==
  LET o == [a |-> "AddRes", c |-> c, ts |-> ts, n |-> n, cb |-> cb, flaw |-> flaw, ev |-> <<>>] IN
  IF ~Usable(c) THEN o @@ [r |-> "RuntimeError"]
  ELSE IF flaw # "none" THEN o @@ [r |-> "Invalid"]
  ELSE IF \E k \in KeysOf(ts, n) : ~IsNone(res[c][k]) THEN o @@ [r |-> "ResourceConflict"]
  ELSE [o EXCEPT !.ev = <<Ev(c, ts, n, FALSE)>>] @@ [r |-> "ok", v |-> <<"s", c, ts, n>>]
AddRes(c, ts, n, cb, flaw) ==
  /\ Born(c) /\ obs' = AddResO(c, ts, n, cb, flaw)
  /\ IF obs'.r # "ok" THEN UNCHANGED core
     ELSE LET id == <<"s", c, ts, n>> IN
          /\ regs < MaxRegs
          /\ res' = [res EXCEPT ![c] = [k \in Keys |-> IF k \in KeysOf(ts, n) THEN [id |-> id, types |-> ts, name |-> n, gen |-> FALSE] ELSE res[c][k]]]
          /\ td' = [td EXCEPT ![c] = IF cb = "ok" THEN Append(@, <<"res", id>>) ELSE @]
          /\ regs' = regs + 1
          /\ UNCHANGED <<cstate, parent, fac, ending>>

(* Context.add_resource_factory: allowed only while open (not during teardown). flaw: "badname" | "nonetype" | "notypes" *)
AddFacO(c, ts, n, async, flaw) ==
  LET o == [a |-> "AddFac", c |-> c, ts |-> ts, n |-> n, as |-> async, flaw |-> flaw, ev |-> <<>>] IN
  IF cstate[c] # "open" THEN o @@ [r |-> "RuntimeError"]
  ELSE IF flaw # "none" THEN o @@ [r |-> "Invalid"]
  ELSE IF \E k \in KeysOf(ts, n) : ~IsNone(fac[c][k]) THEN o @@ [r |-> "ResourceConflict"]
  ELSE [o EXCEPT !.ev = <<Ev(c, ts, n, TRUE)>>] @@ [r |-> "ok"]
AddFac(c, ts, n, async, flaw) ==
  /\ Born(c) /\ obs' = AddFacO(c, ts, n, async, flaw)
  /\ IF obs'.r # "ok" THEN UNCHANGED core
     ELSE LET id == <<"f", c, ts, n, async>> IN
          /\ regs < MaxRegs
          /\ fac' = [fac EXCEPT ![c] = [k \in Keys |-> IF k \in KeysOf(ts, n) THEN [id |-> id, types |-> ts, name |-> n, async |-> async] ELSE fac[c][k]]]
          /\ regs' = regs + 1
          /\ UNCHANGED <<cstate, parent, res, td, ending>>

(* Context.get_resource_nowait (api = "sync") / get_resource (api = "async").
   Lookup order: own table, then factory table; the product is cached under every key of the factory that is still free. *)
FreeKeys(c, f) == {kk \in KeysOf(f.types, f.name) : IsNone(res[c][kk])}
GetO(c, t, n, api, opt) ==
  LET k == Key(t, n)
      o == [a |-> "Get", c |-> c, t |-> t, n |-> n, api |-> api, opt |-> opt, ev |-> <<>>] IN
  IF ~Usable(c) THEN o @@ [r |-> "RuntimeError"]
  ELSE IF ~IsNone(res[c][k]) THEN o @@ [r |-> "val", v |-> res[c][k].id]
  ELSE IF IsNone(fac[c][k]) THEN o @@ [r |-> IF opt THEN "None" ELSE "ResourceNotFound"]
  ELSE IF api = "sync" /\ fac[c][k].async THEN o @@ [r |-> "AsyncResourceError"]
  ELSE LET f == fac[c][k] IN
       [o EXCEPT !.ev = <<EvGen(c, f.types, f.name)>>] @@ [r |-> "gen", v |-> <<"g", c, f.id>>, fid |-> f.id, free |-> FreeKeys(c, f)]
GetEffect(c, t, n) ==
  IF obs'.r # "gen" THEN UNCHANGED core
  ELSE LET f == fac[c][Key(t, n)]
           gid == <<"g", c, f.id>> IN
       /\ res' = [res EXCEPT ![c] = [kk \in Keys |-> IF kk \in FreeKeys(c, f) THEN [id |-> gid, types |-> f.types, name |-> f.name, gen |-> TRUE] ELSE res[c][kk]]]
       /\ UNCHANGED <<cstate, parent, fac, td, ending, regs>>
Get(c, t, n, api, opt) == Born(c) /\ obs' = GetO(c, t, n, api, opt) /\ GetEffect(c, t, n)

(* Calling a function decorated with @inject whose parameter `p: T = resource(n)` (optional: `Optional[T]`) while c is the
   current context is the explicit lookup: get_resource for coroutine functions (fk = "async"), get_resource_nowait for
   plain functions (fk = "sync"); a missing non-optional resource raises ResourceNotFound before the body runs.       *)
InjectO(c, fk, t, n, opt) == [GetO(c, t, n, fk, opt) EXCEPT !.a = "Inject"]
Inject(c, fk, t, n, opt) == Inj /\ Born(c) /\ obs' = InjectO(c, fk, t, n, opt) /\ GetEffect(c, t, n)

(* Context.add_teardown_callback(cb): kind "plain" | "raises" (the callback raises when it runs) | "bad" (not callable) *)
AddTdO(c, kind) ==
  LET o == [a |-> "AddTd", c |-> c, kind |-> kind, ev |-> <<>>] IN
  IF ~Usable(c) THEN o @@ [r |-> "RuntimeError"]
  ELSE IF kind = "bad" THEN o @@ [r |-> "Invalid"]
  ELSE o @@ [r |-> "ok", v |-> <<kind, c, Len(td[c]) + 1>>]
AddTd(c, kind) ==
  /\ Life /\ Born(c) /\ obs' = AddTdO(c, kind)
  /\ IF obs'.r # "ok" THEN UNCHANGED core
     ELSE /\ regs < MaxRegs
          /\ td' = [td EXCEPT ![c] = Append(@, <<kind, c, Len(@) + 1>>)]
          /\ regs' = regs + 1
          /\ UNCHANGED <<cstate, parent, res, fac, ending>>

ResFlaws == IF Flaws THEN {"none", "badname", "nonevalue", "badtype", "badcb"} ELSE {"none"}
FacFlaws == IF Flaws THEN {"none", "badname", "nonetype", "notypes"} ELSE {"none"}
Cbs == {"none", "ok"}
\* parameter spaces (flawed calls are tried with one representative shape only)
ResP == {p \in Ctxs \X TypeSets \X Names \X Cbs \X ResFlaws : p[5] # "none" => (p[4] = "none" /\ "T1" \in p[2])}
FacP == {p \in Ctxs \X TypeSets \X Names \X BOOLEAN \X FacFlaws : p[5] # "none" => (~p[4] /\ p[2] = {"T1"})}
GetP == Ctxs \X Types \X Names \X {"sync", "async"} \X BOOLEAN
TdP == IF Life THEN Ctxs \X {"plain", "raises", "bad"} ELSE {}
InjP == IF Inj THEN GetP ELSE {}
Changes(o) == o.r \in {"ok", "gen"}
\* state-changing steps only; the outcomes that change nothing are LoopObs
Next ==
  \/ \E c \in Ctxs, p \in 0..MaxCtx : Create(c, p)
  \/ \E c \in Ctxs : (Enter(c) /\ Changes(obs')) \/ Close(c) \/ EndClose(c)
  \/ \E c \in Ctxs, how \in {"return", "exc", "cancel"} : BeginClose(c, how)
  \/ \E p \in ResP : AddRes(p[1], p[2], p[3], p[4], p[5]) /\ Changes(obs')
  \/ \E p \in FacP : AddFac(p[1], p[2], p[3], p[4], p[5]) /\ Changes(obs')
  \/ \E p \in GetP : Get(p[1], p[2], p[3], p[4], p[5]) /\ Changes(obs')
  \/ \E p \in TdP : AddTd(p[1], p[2]) /\ Changes(obs')
  \/ \E p \in InjP : Inject(p[1], p[4], p[2], p[3], p[5]) /\ Changes(obs')
\* the complete step relation, including the steps that change nothing (used for the properties below)
NextAll ==
  \/ Next
  \/ \E c \in Ctxs : Enter(c)
  \/ \E p \in ResP : AddRes(p[1], p[2], p[3], p[4], p[5])
  \/ \E p \in FacP : AddFac(p[1], p[2], p[3], p[4], p[5])
  \/ \E p \in GetP : Get(p[1], p[2], p[3], p[4], p[5])
  \/ \E p \in TdP : AddTd(p[1], p[2])
  \/ \E p \in InjP : Inject(p[1], p[4], p[2], p[3], p[5])
\* all outcomes of the current state that change nothing, as one sequence
LoopObs ==
  LET rp == SetToSeq({p \in ResP : Born(p[1]) /\ ~Changes(AddResO(p[1], p[2], p[3], p[4], p[5]))})
      fp == SetToSeq({p \in FacP : Born(p[1]) /\ ~Changes(AddFacO(p[1], p[2], p[3], p[4], p[5]))})
      gp == SetToSeq({p \in GetP : Born(p[1]) /\ ~Changes(GetO(p[1], p[2], p[3], p[4], p[5]))})
      tp == SetToSeq({p \in TdP : Born(p[1]) /\ ~Changes(AddTdO(p[1], p[2]))})
      ep == SetToSeq({c \in Ctxs : Life /\ Born(c) /\ ~Changes(EnterO(c))})
      ip == SetToSeq({p \in InjP : Born(p[1]) /\ ~Changes(InjectO(p[1], p[4], p[2], p[3], p[5]))})
      \* compact rows: the arguments in order, then the result class, then the value id for lookups that return one
      V(o) == IF "v" \in DOMAIN o THEN o.v ELSE 0
  IN [i \in DOMAIN rp |-> <<"AddRes", rp[i][1], rp[i][2], rp[i][3], rp[i][4], rp[i][5], AddResO(rp[i][1], rp[i][2], rp[i][3], rp[i][4], rp[i][5]).r>>]
     \o [i \in DOMAIN fp |-> <<"AddFac", fp[i][1], fp[i][2], fp[i][3], fp[i][4], fp[i][5], AddFacO(fp[i][1], fp[i][2], fp[i][3], fp[i][4], fp[i][5]).r>>]
     \o [i \in DOMAIN gp |-> LET o == GetO(gp[i][1], gp[i][2], gp[i][3], gp[i][4], gp[i][5]) IN
                               <<"Get", gp[i][1], gp[i][2], gp[i][3], gp[i][4], gp[i][5], o.r, V(o)>>]
     \o [i \in DOMAIN tp |-> <<"AddTd", tp[i][1], tp[i][2], AddTdO(tp[i][1], tp[i][2]).r>>]
     \o [i \in DOMAIN ep |-> <<"Enter", ep[i], EnterO(ep[i]).r>>]
     \o [i \in DOMAIN ip |-> LET o == InjectO(ip[i][1], ip[i][4], ip[i][2], ip[i][3], ip[i][5]) IN
                               <<"Inject", ip[i][1], ip[i][2], ip[i][3], ip[i][4], ip[i][5], o.r, V(o)>>]
Spec == Init /\ [][NextAll]_vars

(* ------------------------------------------------ properties of the design ------------------------------------------- *)
\* C02: a context sees exactly what was visible in its parent when it was created, plus its own additions:
\* every non-generated entry of a context originates in that context or in one of its ancestors
RECURSIVE Anc(_)
Anc(c) == IF parent[c] = 0 THEN {} ELSE {parent[c]} \cup Anc(parent[c])
ScopedDown == \A c \in Ctxs : \A k \in Keys :
                 /\ (~IsNone(res[c][k]) => res[c][k].id[2] \in {c} \cup Anc(c))
                 /\ (~IsNone(fac[c][k]) => fac[c][k].id[2] \in {c} \cup Anc(c))
\* C04: a generated value belongs to the requesting context only
GenNotShared == \A c, d \in Ctxs : \A k, kk \in Keys :
                   (c # d /\ ~IsNone(res[c][k]) /\ res[c][k].gen /\ ~IsNone(res[d][kk])) => res[d][kk].id # res[c][k].id
GenIsOwn == \A c \in Ctxs : \A k \in Keys : (~IsNone(res[c][k]) /\ res[c][k].gen) => res[c][k].id[2] = c
\* C03: a key, once it resolves to an object, resolves to the same object until the context is closed;
\* nothing that is not the acted-on context changes (C02: nothing up or sideways)
Stable == [][\A c \in Ctxs : \A k \in Keys : ~IsNone(res[c][k]) => res'[c][k] = res[c][k]]_core
OnlyActedOn == [][\A c \in Ctxs : (Born(c) /\ (res'[c] # res[c] \/ fac'[c] # fac[c])) => obs'.c = c]_vars
\* C03: a call that raises changes nothing
FailedChangesNothing == [][(obs'.r \in {"RuntimeError", "Invalid", "ResourceConflict", "AsyncResourceError", "ResourceNotFound"}) => UNCHANGED core]_vars
\* C13: closed contexts stay closed; the life cycle only moves forward
Rank(s) == CASE s = "unborn" -> 0 [] s = "inactive" -> 1 [] s = "open" -> 2 [] s = "closing" -> 3 [] s = "closed" -> 4
Forward == [][\A c \in Ctxs : Rank(cstate'[c]) >= Rank(cstate[c])]_core
\* C18: a step announces exactly its own registration, on the acted-on context
EventsRight == [][(Len(obs'.ev) <= 1) /\ (obs'.ev # <<>> => (obs'.ev[1].c = obs'.c /\ obs'.r \in {"ok", "gen"}))]_vars
TypeOK == /\ \A c \in Ctxs : cstate[c] \in {"unborn", "inactive", "open", "closing", "closed"}
          /\ regs \in 0..MaxRegs
=============================================================================
