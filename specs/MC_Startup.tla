----------------------------- MODULE MC_Startup -----------------------------
EXTENDS Startup, Json
A(t, n, x) == [k |-> "add", ts |-> t, n |-> n, x |-> x]
G(t, n, x) == [k |-> "get", ts |-> <<t>>, n |-> n, x |-> x]
\* C05 family: publications and non-optional lookups over two keys
Svc == [k |-> "svc", ts |-> <<>>, n |-> "", x |-> ""]
Ops5 == {A(<<"A">>, "n", "res2"), A(<<"B">>, "n", "afac"), G("A", "n", "wait"), G("B", "n", "wait"), Svc}    \* (B through an asynchronous factory; C06 has the synchronous ones)
\* C06 family: matching and non-matching publications of every kind against every kind of lookup of (A, m)
Ops6Add == {A(<<"A">>, "m", "res"), A(<<"A">>, "m", "res2"), A(<<"A">>, "n", "res"), A(<<"B">>, "m", "res"), A(<<"A">>, "m", "fac"), A(<<"A">>, "m", "afac"),
            A(<<"A", "B">>, "m", "res"), A(<<"A">>, "default", "res")}
Ops6Get == {G("A", "m", "wait"), G("A", "m", "giveup"), G("A", "m", "opt"), G("A", "m", "nowait")}
Ops6 == Ops6Add \cup Ops6Get
Ops6Prep == {A(<<"A">>, "m", "res"), G("A", "m", "wait")}
Ops6PrepQuick == {A(<<"A">>, "m", "res")}
\* focused family: waiters that give up (a timeout of their own) next to waiters that stay, and a publication afterwards
Ops6bPrep == {A(<<"A">>, "m", "res"), G("A", "m", "giveup")}
Ops6bStart == {A(<<"A">>, "m", "res"), G("A", "m", "wait"), G("A", "m", "giveup")}
\* focused family for C05: a flat tree of up to three children in which two may wait (for different names) while a third publishes both,
\* in either order: the waiter that subscribed first is satisfied while the other keeps waiting, then the second publication follows
Ops5c == {G("A", "m1", "wait"), G("A", "m2", "wait"), A(<<"A">>, "m1", "res"), A(<<"A">>, "m2", "res")}
Flat5c == \A c \in 1..prog.n : prog.par[c] \in {0, 1} /\ ~prog.hp[c] /\ (c = 1 => prog.ss[c] = <<>>) /\ (c > 1 => prog.hs[c] /\ prog.ss[c] # <<>>)
Ops7 == {Noop}
Dump == Terminal => PrintT(ToJson([prog |-> prog, hist |-> hist, fin |-> rt.sc]))
=============================================================================
