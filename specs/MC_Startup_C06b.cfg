INIT Init
NEXT Next
CONSTANTS
  MaxComps = 3
  PrepOps <- Ops6bPrep
  StartOps <- Ops6bStart
  MinLen = 0
  MaxLen = 1
  Faults = FALSE
  Timeouts = FALSE
  Drns = {"default"}
INVARIANT Mon5Ok
INVARIANT Mon6Ok
INVARIANT NoLostWakeup
INVARIANT Dump
CHECK_DEADLOCK FALSE
