INIT Init
NEXT Next
VIEW View
CONSTANTS
  Chans = {"1a", "1b"}
  ChanSeqs <- MC_ChanSeqsBurst
  Subs = {1, 2}
  MaxEv = 3
  AbandonSubs = {1}
  QMaxes = {0, 1}
  Bursts = TRUE
INVARIANT InOrder
INVARIANT OwnChannelsOnly
INVARIANT QueueOwnChannels
INVARIANT QueueBounded
INVARIANT Registered
INVARIANT WaitOne
INVARIANT TransitOnlyInBursts
PROPERTY Isolation
CHECK_DEADLOCK FALSE
