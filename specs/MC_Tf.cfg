INIT Init
NEXT Next
CONSTANTS
  MaxTasks = 2
INVARIANT MonOk
INVARIANT WaitsForTasks
INVARIANT Dump
CHECK_DEADLOCK FALSE
