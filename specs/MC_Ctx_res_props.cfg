INIT Init
NEXT NextMC
VIEW View
CONSTANTS
  MaxCtx = 3
  MaxRegs = 2
  Names = {"default"}
  Life = FALSE
  Flaws = TRUE
  Inj = FALSE
INVARIANT TypeOK
INVARIANT ScopedDown
INVARIANT GenNotShared
INVARIANT GenIsOwn
PROPERTY Stable
PROPERTY OnlyActedOn
PROPERTY FailedChangesNothing
PROPERTY Forward
PROPERTY EventsRight
CHECK_DEADLOCK FALSE
