----------------------------- MODULE Trace_C16 -----------------------------
(* Batch verdicts for C16: each recorded invocation of the real `asphalt run` command is compared with RunPipeline.
   A case is [id, files, sets, flag, env, obs]; obs is [kind |-> "launch", type, comp, top] (what run_application was
   handed) or [kind |-> "error"] (non-zero exit, nothing started).                                               *)
EXTENDS Config, TLCExt, Json, IOUtils
Cases == JsonDeserialize(IOEnv.TRACE_FILE)
VARIABLES i
Init == i \in 1..Len(Cases)
Next == FALSE /\ UNCHANGED i
\* a case run for real (no recorder): the started root component reports its class, its constructor arguments, the thread
\* limit it finds and the backend it runs on
RealWhy(c, e) ==
  IF e.kind = "error" THEN (IF c.obs.kind = "error" THEN "" ELSE "real-run-started-although-the-command-must-fail:" \o e.why)
  ELSE IF c.obs.kind # "launch" THEN "real-run-failed-although-the-command-must-start"
  ELSE IF ~EqV(c.obs.type, e.type) THEN "real-run-started-the-wrong-root-component"
  ELSE IF ~EqD(c.obs.comp, e.comp) THEN "real-run-constructed-the-root-component-with-the-wrong-arguments"
  ELSE IF "max_threads" \in DOMAIN e.top /\ e.top["max_threads"].t = "i" /\ c.obs.max_threads # e.top["max_threads"].v THEN "real-run-max_threads-not-applied"
  ELSE IF c.obs.backend # (IF "backend" \in DOMAIN e.top THEN e.top["backend"].v ELSE "asyncio") THEN "real-run-on-the-wrong-backend"
  ELSE ""
Why(c) ==
  LET e == RunPipeline(c.files, c.sets, c.flag, c.env) IN
  IF e.kind = "unspecified" THEN "unspecified"
  ELSE IF "real" \in DOMAIN c THEN RealWhy(c, e)
  ELSE IF e.kind = "error" THEN (IF c.obs.kind = "error" THEN "" ELSE "started-although-the-command-must-fail:" \o e.why)
  ELSE IF c.obs.kind # "launch" THEN "failed-although-the-command-must-start"
  ELSE IF ~EqV(c.obs.type, e.type) THEN "wrong-root-component-type"
  ELSE IF ~EqD(c.obs.comp, e.comp) THEN "wrong-component-configuration"
  ELSE IF ~EqD(c.obs.top, LaunchKwargs(e.top)) THEN "wrong-top-level-options"
  ELSE ""
Report == LET c == Cases[i] w == Why(c) IN
          PrintT(ToJson([end |-> c.id, ok |-> (w \in {"", "unspecified"}), step |-> 1, why |-> w, hits |-> <<>>]))
=============================================================================
