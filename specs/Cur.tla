--------------------------------- MODULE Cur ---------------------------------
(* The task-local "current context" of asphalt (contextvar set in Context.__aenter__, reset from the exit stack after teardown):
   NT tasks, each entering and leaving its own stack of contexts by any route, spawning further tasks from inside blocks, and
   creating contexts with the implicit parent (the current context) or an explicit one. The design is composed with the C12
   monitor; hist records the steps so that every transition of the bounded graph can be driven against real tasks.       *)
EXTENDS Naturals, Sequences, FiniteSets, TLC
CONSTANTS NT, MaxDepth, MaxCtx
M == INSTANCE P_C12
Tasks == 1..NT
VARIABLES stack, base, started, nctx, hist, mon
state == <<stack, base, started, nctx>>
vars == <<state, hist, mon>>
Init == /\ stack = [t \in Tasks |-> <<>>] /\ base = [t \in Tasks |-> 0] /\ started = {1} /\ nctx = 0 /\ hist = <<>> /\ mon = M!MonInit
CurOf(t) == IF stack[t] # <<>> THEN stack[t][Len(stack[t])] ELSE base[t]
Open == UNION {{stack[t][i] : i \in DOMAIN stack[t]} : t \in Tasks}
\* after every step current_context() is observed in every started task
Observe(m, st, bs, sd) ==
  LET RECURSIVE F(_, _)
      F(mm, S) == IF S = {} THEN mm ELSE LET t == CHOOSE t \in S : \A u \in S : t <= u
                                             c == IF st[t] # <<>> THEN st[t][Len(st[t])] ELSE bs[t]
                                         IN F(M!MonNext(mm, [ev |-> "cur", t |-> t, obs |-> c]), S \ {t})
  IN F(m, sd)
Enter(t, p) ==   \* p = 0: implicit parent; otherwise an explicit open context that is not the current one
  /\ t \in started /\ Len(stack[t]) < MaxDepth /\ nctx < MaxCtx
  /\ (p # 0 => (p \in Open /\ p # CurOf(t)))
  /\ LET c == nctx + 1
         par == IF p = 0 THEN CurOf(t) ELSE p IN
     /\ stack' = [stack EXCEPT ![t] = Append(@, c)] /\ nctx' = c
     /\ hist' = Append(hist, [a |-> "enter", t |-> t, p |-> p])
     /\ mon' = Observe(M!MonNext(mon, [ev |-> "enter", t |-> t, c |-> c, explicit |-> (p # 0), p |-> p, parent |-> par]), stack', base, started)
  /\ UNCHANGED <<base, started>>
Leave(t, how) ==
  /\ t \in started /\ stack[t] # <<>>
  \* structured use: a context is left only when no context entered later in a task spawned from inside it... is not required:
  \* tasks are independent; only the own innermost block can be left
  /\ stack' = [stack EXCEPT ![t] = SubSeq(@, 1, Len(@) - 1)]
  /\ hist' = Append(hist, [a |-> "leave", t |-> t, how |-> how])
  /\ mon' = Observe(M!MonNext(mon, [ev |-> "leave", t |-> t, how |-> how]), stack', base, started)
  /\ UNCHANGED <<base, started, nctx>>
Spawn(t) ==
  /\ t \in started /\ Cardinality(started) < NT
  /\ LET u == CHOOSE u \in Tasks \ started : \A v \in Tasks \ started : u <= v IN
     /\ base' = [base EXCEPT ![u] = CurOf(t)] /\ started' = started \cup {u}
     /\ hist' = Append(hist, [a |-> "spawn", t |-> t, u |-> u])
     /\ mon' = Observe(M!MonNext(mon, [ev |-> "spawn", t |-> t, u |-> u]), stack, base', started')
  /\ UNCHANGED <<stack, nctx>>
\* start_component called by task t from inside a block: prepare()/start() see the caller's context as the parent of new contexts,
\* also of a context that is handed the component's own view of it explicitly (Context(current_context()))
Comp(t) ==
  /\ t \in started /\ CurOf(t) # 0 /\ (hist = <<>> \/ hist[Len(hist)].a # "comp")
  /\ hist' = Append(hist, [a |-> "comp", t |-> t])
  /\ mon' = Observe(M!MonNext(mon, [ev |-> "comp", t |-> t, prep |-> CurOf(t), start |-> CurOf(t), inner |-> CurOf(t), given |-> CurOf(t), restored |-> TRUE]), stack, base, started)
  /\ UNCHANGED state
Next == \/ \E t \in Tasks, p \in 0..MaxCtx : Enter(t, p)
        \/ \E t \in Tasks, how \in {"return", "exc", "cancel", "tdraise"} : Leave(t, how)
        \/ \E t \in Tasks : Spawn(t) \/ Comp(t)
MonOk == mon.ok
\* the statement read on the state: what a task sees depends only on its own stack and on where it was spawned
StackDiscipline == \A t \in started : CurOf(t) = (IF stack[t] # <<>> THEN stack[t][Len(stack[t])] ELSE base[t])
=============================================================================
