------------------------------- MODULE P_C06 -------------------------------
(* C06 as a monitor: waiting for a resource during component start-up.
     get.begin(c, t, n, mode)     component c asks for (type t, name n); mode "wait" (non-optional, during start-up), "giveup" (the same,
                                  inside a timeout of the component's own: it may end with r = "gaveup"), "opt", "nowait"
     get.end(c, t, n, r, v)       the lookup ends: r = "val" (object v), "none", "notfound", "other:<exception>"
     publish(c, ts, n, kind, v)   a resource (kind "res", value v) or a factory (kind "fac", product v) becomes available under
                                  every type in ts with name n
     q(waiting)                   quiescent point: the components whose lookup has begun and not ended                        *)
EXTENDS Naturals, Sequences, FiniteSets
MonInit == [pubs |-> <<>>, open |-> <<>>, ok |-> TRUE, why |-> "", hits |-> {}]
Fail(m, w) == [m EXCEPT !.ok = FALSE, !.why = w]
Hit(m, h) == [m EXCEPT !.hits = @ \cup {h}]
Range(q) == {q[i] : i \in DOMAIN q}
Matches(pb, t, n) == pb.n = n /\ t \in Range(pb.ts)
Matching(m, t, n) == {i \in DOMAIN m.pubs : Matches(m.pubs[i], t, n)}
\* the first publication that matches is the one a lookup resolves to (later ones conflict and are not made by the families)
First(m, t, n) == m.pubs[CHOOSE i \in Matching(m, t, n) : \A j \in Matching(m, t, n) : i <= j]
OpenOf(m, c) == {i \in DOMAIN m.open : m.open[i].c = c}
MonNext(m, e) ==
  IF ~m.ok THEN m ELSE
  CASE e.ev = "publish" -> [Hit(m, "publish-" \o e.kind) EXCEPT !.pubs = Append(@, [ts |-> e.ts, n |-> e.n, kind |-> e.kind, v |-> e.v])]
    [] e.ev = "get.begin" -> [m EXCEPT !.open = Append(@, [c |-> e.c, t |-> e.t, n |-> e.n, mode |-> e.mode, had |-> Matching(m, e.t, e.n) # {}])]
    [] e.ev = "get.end" ->
         IF OpenOf(m, e.c) = {} THEN Fail(m, "malformed-trace-lookup-ended-without-beginning")
         ELSE LET i == CHOOSE i \in OpenOf(m, e.c) : TRUE
                  g == m.open[i]
                  m1 == [m EXCEPT !.open = [j \in 1..(Len(@) - 1) |-> IF j < i THEN @[j] ELSE @[j + 1]]] IN
              IF e.r = "gaveup" THEN (IF g.mode = "giveup" THEN Hit(m1, "gave-up") ELSE Fail(m1, "lookup-abandoned-without-being-asked-to"))
              ELSE IF Matching(m, g.t, g.n) = {} THEN
                   (IF g.mode \in {"wait", "giveup"} THEN Fail(m1, "waiter-released-without-a-matching-publication")
                    ELSE IF g.mode = "opt" /\ e.r # "none" THEN Fail(m1, "optional-lookup-of-a-missing-resource-did-not-return-None")
                    ELSE IF g.mode = "nowait" /\ e.r # "notfound" THEN Fail(m1, "lookup-outside-startup-did-not-raise-ResourceNotFound")
                    ELSE Hit(m1, "miss-" \o g.mode))
              ELSE IF e.r # "val" THEN Fail(m1, "lookup-failed-although-a-matching-publication-exists")
              ELSE IF e.v # First(m, g.t, g.n).v THEN Fail(m1, "lookup-returned-something-else-than-the-published-object")
              ELSE Hit(m1, IF g.had THEN "found-published-before" ELSE "found-published-after-request")
    [] e.ev = "q" ->
         LET W == Range(e.waiting) IN
         IF \E i \in DOMAIN m.open : m.open[i].c \in W /\ Matching(m, m.open[i].t, m.open[i].n) # {} THEN Fail(m, "lost-wakeup-waiter-still-blocked-after-a-matching-publication")
         ELSE IF \E i \in DOMAIN m.open : m.open[i].c \in W /\ m.open[i].mode \notin {"wait", "giveup"} THEN Fail(m, "optional-or-non-startup-lookup-is-waiting")
         ELSE IF W # {} THEN Hit(m, "waiting") ELSE m
    [] OTHER -> m
=============================================================================
