SPECIFICATION Spec
CONSTANTS
  MaxComps = 2
  PrepOps <- Ops5
  StartOps <- Ops5
  MinLen = 0
  MaxLen = 1
  Faults = TRUE
  Timeouts = TRUE
  Drns = {"default"}
PROPERTY Finishes
CHECK_DEADLOCK FALSE
