--------------------------------- MODULE Svc ---------------------------------
(* Service tasks at context teardown (Context.start_service_task, its finalizer, run_background_task; LIFO teardown).
   The program is a list of registrations on one owning context - resources with teardown callbacks and service tasks with a
   teardown action and a behaviour - in a root or a nested context, and how the block ends. Controllable steps: a gated task
   ends by itself or crashes (Release), the owner's block ends (Leave). Teardown then runs to completion or until a finalizer
   waits for a task that must end by itself. Every step feeds its events to the C08 monitor.

   action: "cancel" | "none" | "call_ok" | "call_async_ok" | "call_raise" | "call_async_raise"
   behaviour: "forever" (until cancelled) | "signalled" | "slow" (needs time after being signalled) | "gate" (ends by itself
              when released) | "crash" (raises when released)                                                             *)
EXTENDS Naturals, Sequences, FiniteSets, TLC, SequencesExt
CONSTANTS MaxItems, MaxSvc
M == INSTANCE P_C08
Combos == {<<"cancel", "forever">>, <<"cancel", "gate">>, <<"none", "gate">>, <<"call_ok", "signalled">>, <<"call_ok", "slow">>,
           <<"call_async_ok", "signalled">>, <<"call_async_ok", "slow">>, <<"call_raise", "forever">>, <<"call_async_raise", "forever">>,
           <<"cancel", "crash">>, <<"none", "crash">>}
VARIABLES prog, stage, rt, hist, mon
vars == <<prog, stage, rt, hist, mon>>
Init == /\ prog = [items |-> <<>>, nested |-> FALSE, ending |-> "return"] /\ stage = "gen"
        /\ rt = [st |-> <<>>, stack |-> <<>>, left |-> FALSE, waitfor |-> 0, crashed |-> {}, selfended |-> {}, evs |-> <<>>]
        /\ hist = <<>> /\ mon = M!MonInit
NSvc(items) == Cardinality({i \in DOMAIN items : items[i].kind = "svc"})
NSvcAll(items) == Cardinality({i \in DOMAIN items : items[i].kind \in {"svc", "svcslow"}})
AddRes == /\ stage = "gen" /\ Len(prog.items) < MaxItems
          /\ prog' = [prog EXCEPT !.items = Append(@, [kind |-> "res", action |-> "", beh |-> ""])]
          /\ UNCHANGED <<stage, rt, hist, mon>>
\* a resource whose teardown callback starts one more service task (action "cancel", runs until cancelled) while the owning context
\* is already being torn down: its finalizer is registered last, so the task is stopped at once, before the earlier callbacks run.
\* The late task of item i has the number Len(items) + i.
AddResLate == /\ stage = "gen" /\ Len(prog.items) < MaxItems /\ ~\E i \in DOMAIN prog.items : prog.items[i].kind = "reslate"
              /\ prog' = [prog EXCEPT !.items = Append(@, [kind |-> "reslate", action |-> "", beh |-> ""])]
              /\ UNCHANGED <<stage, rt, hist, mon>>
\* a service task whose start handshake is slow (its function calls task_status.started() late): the registration that follows it in the
\* program - if that is a resource - is made by another task WHILE start_service_task is still waiting, i.e. before the task "was started";
\* the finalizer is registered when start_service_task returns, after that resource, and so runs before that resource's callback
AddSvcSlow == /\ stage = "gen" /\ Len(prog.items) < MaxItems /\ NSvcAll(prog.items) < MaxSvc /\ ~\E i \in DOMAIN prog.items : prog.items[i].kind = "svcslow"
              /\ prog' = [prog EXCEPT !.items = Append(@, [kind |-> "svcslow", action |-> "cancel", beh |-> "forever"])]
              /\ UNCHANGED <<stage, rt, hist, mon>>
AddSvc == /\ stage = "gen" /\ Len(prog.items) < MaxItems /\ NSvcAll(prog.items) < MaxSvc
          /\ \E cb \in Combos : prog' = [prog EXCEPT !.items = Append(@, [kind |-> "svc", action |-> cb[1], beh |-> cb[2]])]
          /\ UNCHANGED <<stage, rt, hist, mon>>
Emit(r, e) == [r EXCEPT !.evs = Append(@, e)]
Feed(r) == mon' = LET RECURSIVE F(_, _) F(m, i) == IF i > Len(r.evs) THEN m ELSE F(M!MonNext(m, r.evs[i]), i + 1) IN F(mon, 1)
IsRes(it) == it.kind \in {"res", "reslate"}
ResBefore(i) == {j \in 1..(i - 1) : IsRes(prog'.items[j])}
\* the block is entered and everything is registered in order; each task starts at once and takes its snapshot
Start == /\ stage = "gen" /\ NSvcAll(prog.items) >= 1
         /\ \E nested \in BOOLEAN, ending \in {"return", "exc"} : prog' = [prog EXCEPT !.nested = nested, !.ending = ending]
         /\ LET Overlaps(i) == prog.items[i].kind = "svcslow" /\ i < Len(prog.items) /\ prog.items[i + 1].kind = "res"
                Push(r, i) == [r EXCEPT !.stack = Append(@, i)]
                RECURSIVE Reg(_, _)
                Reg(r, i) == IF i > Len(prog.items) THEN r
                             ELSE IF IsRes(prog.items[i]) THEN Reg(Push(Emit(r, [ev |-> "reg", id |-> i]), i), i + 1)
                             ELSE IF Overlaps(i) THEN      \* the next resource is registered during the handshake: it comes first
                                  Reg(Push(Emit(Push(Emit(r, [ev |-> "reg", id |-> i + 1]), i + 1), [ev |-> "svc.start", k |-> i, action |-> prog.items[i].action]), i), i + 2)
                             ELSE IF prog.items[i].kind = "svcslow" THEN Reg(Push(Emit(r, [ev |-> "svc.start", k |-> i, action |-> prog.items[i].action]), i), i + 1)
                             ELSE Reg(Push(Emit(Emit(r, [ev |-> "svc.start", k |-> i, action |-> prog.items[i].action]),
                                                [ev |-> "svc.snapshot", k |-> i, vis |-> SetToSeq(ResBefore(i))]), i), i + 1)
                r0 == [rt EXCEPT !.st = [i \in 1..(2 * Len(prog.items)) |-> IF i <= Len(prog.items) /\ prog.items[i].kind \in {"svc", "svcslow"} THEN "run" ELSE "res"],
                                 !.stack = <<>>, !.evs = <<>>]
            IN rt' = Reg(r0, 1)
         /\ stage' = "run" /\ hist' = <<>> /\ Feed(rt')
\* a task ends: function returns, then its own context is torn down
EndTask(r, k) == Emit(Emit([r EXCEPT !.st[k] = "done"], [ev |-> "svc.body.end", k |-> k]), [ev |-> "svc.ctx.td", k |-> k])
CancelTask(r, k) == EndTask(Emit(r, [ev |-> "svc.saw.cancel", k |-> k]), k)
\* one finalizer: act per teardown_action, then wait for the task
Finalize(r, k) ==
  LET it == prog.items[k] IN
  IF r.st[k] = "done" THEN r
  ELSE IF it.action = "cancel" THEN CancelTask(r, k)
  ELSE IF it.action = "none" THEN [r EXCEPT !.waitfor = k]                   \* must end by itself: wait
  ELSE IF it.action \in {"call_ok", "call_async_ok"} THEN EndTask(Emit(r, [ev |-> "svc.action", k |-> k]), k)
  ELSE CancelTask(Emit(r, [ev |-> "svc.action", k |-> k]), k)               \* the callable raised: fall back to cancellation
\* the LIFO teardown loop of the owning context, until it is done or a finalizer has to wait
RECURSIVE Unwind(_)
Unwind(r) ==
  IF r.waitfor # 0 THEN r
  ELSE IF r.stack = <<>> THEN Emit(Emit([r EXCEPT !.left = TRUE], [ev |-> "exit.end", selfended |-> SetToSeq(r.selfended)]), [ev |-> "root.exit.end", surfaced |-> <<>>])
  ELSE LET i == r.stack[Len(r.stack)]
           r1 == [r EXCEPT !.stack = SubSeq(@, 1, Len(@) - 1)] IN
       IF prog.items[i].kind = "res" THEN Unwind(Emit(r1, [ev |-> "cb.begin", id |-> i]))
       ELSE IF prog.items[i].kind = "reslate" THEN
            LET k == Len(prog.items) + i
                allres == {j \in DOMAIN prog.items : IsRes(prog.items[j])}
                r2 == Emit(Emit(Emit(r1, [ev |-> "cb.begin", id |-> i]), [ev |-> "svc.start", k |-> k, action |-> "cancel"]),
                           [ev |-> "svc.snapshot", k |-> k, vis |-> SetToSeq(allres)]) IN
            Unwind(CancelTask(r2, k))           \* the finalizer registered last runs next
       ELSE Unwind(Finalize(r1, i))
\* an escaping exception cancels the root task group: the block and every task are cancelled, teardown runs under cancellation
CrashDown(r, k) ==
  LET r1 == Emit(Emit([r EXCEPT !.st[k] = "done", !.crashed = @ \cup {k}], [ev |-> "svc.crash", k |-> k, exc |-> k]), [ev |-> "svc.body.end", k |-> k])
      RECURSIVE CancelRest(_, _)
      CancelRest(rr, S) == IF S = {} THEN rr ELSE LET j == CHOOSE j \in S : \A i \in S : j <= i IN CancelRest(CancelTask(rr, j), S \ {j})
      r2 == CancelRest(Emit(r1, [ev |-> "exit.begin", cancelled |-> TRUE]), {j \in DOMAIN r1.st : r1.st[j] = "run"}) IN
  Emit(Emit([r2 EXCEPT !.left = TRUE, !.stack = <<>>, !.waitfor = 0], [ev |-> "exit.end", selfended |-> SetToSeq(r.selfended)]), [ev |-> "root.exit.end", surfaced |-> SetToSeq(r1.crashed)])
Gated(k) == k \in DOMAIN prog.items /\ prog.items[k].kind \in {"svc", "svcslow"} /\ prog.items[k].beh \in {"gate", "crash"}
Release(k) ==
  /\ stage = "run" /\ Gated(k) /\ rt.st[k] = "run" /\ (~rt.left) /\ (rt.waitfor \in {0, k}) /\ UNCHANGED <<prog, stage>>
  /\ LET r0 == [rt EXCEPT !.evs = <<>>] IN
     rt' = IF prog.items[k].beh = "crash" THEN CrashDown(r0, k)
           ELSE LET r1 == EndTask([r0 EXCEPT !.selfended = @ \cup {k}], k) IN
                IF rt.waitfor = k THEN Unwind([r1 EXCEPT !.waitfor = 0]) ELSE r1
  /\ hist' = Append(hist, k) /\ Feed(rt')
Leave ==
  /\ stage = "run" /\ ~rt.left /\ rt.waitfor = 0 /\ rt.stack # <<>> /\ (\A i \in DOMAIN hist : hist[i] # 0) /\ UNCHANGED <<prog, stage>>
  /\ rt' = Unwind(Emit([rt EXCEPT !.evs = <<>>], [ev |-> "exit.begin", cancelled |-> FALSE]))
  /\ hist' = Append(hist, 0) /\ Feed(rt')
Next == AddRes \/ AddResLate \/ AddSvc \/ AddSvcSlow \/ Start \/ Leave \/ \E k \in 1..MaxItems : Release(k)
Terminal == stage = "run" /\ rt.left
MonOk == mon.ok
\* read on the state: when the block has been left no task is running
NoTaskLeft == Terminal => \A k \in DOMAIN rt.st : rt.st[k] \in {"res", "done"}
Spec == Init /\ [][Next]_vars /\ WF_vars(Next)
Ends == (stage = "run") ~> Terminal
=============================================================================
