INIT Init
NEXT Next
INVARIANT EquivalentOk
INVARIANT OnlySubclassesOk
INVARIANT Dump
CHECK_DEADLOCK FALSE
