------------------------------- MODULE P_C08 -------------------------------
(* C08 as a monitor over one owning context with resources (teardown callbacks) and service tasks:
     reg(id)                      a resource with a teardown callback is added
     svc.start(k, action)         start_service_task is called (its position in the registration order)
     svc.snapshot(k, vis)         resources visible inside the task's own context when it starts
     exit.begin(cancelled)        the owner's block ends (cancelled: the teardown itself runs under cancellation)
     svc.crash(k, exc)            an exception escapes task k (the application is going down: teardown is cancelled)
     svc.action(k)                the teardown callable of task k is invoked
     svc.saw.cancel(k)            task k observes cancellation
     svc.body.end(k) svc.ctx.td(k) the task function has returned / a teardown callback of the task's own context has run
     cb.begin(id)                 the teardown callback of resource id starts
     exit.end(selfended)          the owner's block has been left (selfended: tasks that had ended by themselves)
     root.exit.end(surfaced)      what left the root context                                                              *)
EXTENDS Naturals, Sequences, FiniteSets
MonInit == [order |-> <<>>, actionOf |-> <<>>, called |-> {}, sawcancel |-> {}, bodyend |-> {}, ctxtd |-> {},
            closing |-> FALSE, exempt |-> FALSE, ended |-> FALSE, crashed |-> {}, ok |-> TRUE, why |-> "", hits |-> {}]
Fail(m, w) == [m EXCEPT !.ok = FALSE, !.why = w]
Hit(m, h) == [m EXCEPT !.hits = @ \cup {h}]
Range(q) == {q[i] : i \in DOMAIN q}
Has(m, kind, id) == \E i \in DOMAIN m.order : m.order[i] = <<kind, id>>
Pos(m, kind, id) == CHOOSE i \in DOMAIN m.order : m.order[i] = <<kind, id>>
SvcAfter(m, id) == {m.order[i][2] : i \in {j \in DOMAIN m.order : j > Pos(m, "res", id) /\ m.order[j][1] = "svc"}}
ResBefore(m, k) == {m.order[i][2] : i \in {j \in DOMAIN m.order : j < Pos(m, "svc", k) /\ m.order[j][1] = "res"}}
Action(m, k) == LET i == CHOOSE i \in DOMAIN m.actionOf : m.actionOf[i][1] = k IN m.actionOf[i][2]
Known(m, k) == \E i \in DOMAIN m.actionOf : m.actionOf[i][1] = k
Svcs(m) == {m.order[i][2] : i \in {j \in DOMAIN m.order : m.order[j][1] = "svc"}}
MonNext(m, e) ==
  IF ~m.ok THEN m ELSE
  IF "k" \in DOMAIN e /\ e.ev # "svc.start" /\ ~Known(m, e.k) THEN Fail(m, "malformed-trace-unknown-task")
  ELSE IF m.ended /\ e.ev \in {"svc.action", "svc.saw.cancel", "svc.body.end", "svc.ctx.td", "svc.step"} /\ ~m.exempt THEN Fail(m, "service-task-activity-after-the-owning-block-was-left")
  ELSE
  CASE e.ev = "reg" -> [m EXCEPT !.order = Append(@, <<"res", e.id>>)]
    [] e.ev = "svc.start" -> [m EXCEPT !.order = Append(@, <<"svc", e.k>>), !.actionOf = Append(@, <<e.k, e.action>>)]
    [] e.ev = "svc.snapshot" -> IF Range(e.vis) # ResBefore(m, e.k) THEN Fail(m, "task-context-is-not-a-snapshot-of-the-resources-present-at-start") ELSE Hit(m, "snapshot")
    [] e.ev = "exit.begin" -> [m EXCEPT !.closing = TRUE, !.exempt = @ \/ e.cancelled]
    [] e.ev = "svc.crash" -> [Hit(m, "crash") EXCEPT !.crashed = @ \cup {e.exc}, !.exempt = TRUE]
    [] e.ev = "svc.action" -> IF e.k \in m.called THEN Fail(m, "teardown-callable-invoked-twice")
                             ELSE IF ~m.closing THEN Fail(m, "teardown-callable-invoked-before-teardown")
                             ELSE [Hit(m, "action-" \o Action(m, e.k)) EXCEPT !.called = @ \cup {e.k}]
    [] e.ev = "svc.saw.cancel" ->
         IF m.exempt THEN [m EXCEPT !.sawcancel = @ \cup {e.k}]
         ELSE IF ~m.closing THEN Fail(m, "task-cancelled-before-teardown")
         ELSE IF Action(m, e.k) = "none" THEN Fail(m, "task-that-should-be-awaited-was-cancelled")
         ELSE IF Action(m, e.k) \in {"call_ok", "call_async_ok"} THEN Fail(m, "task-cancelled-although-its-teardown-callable-succeeded")
         ELSE [Hit(m, "cancelled-" \o Action(m, e.k)) EXCEPT !.sawcancel = @ \cup {e.k}]
    [] e.ev = "svc.body.end" -> [m EXCEPT !.bodyend = @ \cup {e.k}]
    [] e.ev = "svc.ctx.td" -> [m EXCEPT !.ctxtd = @ \cup {e.k}]
    [] e.ev = "cb.begin" ->
         IF ~Has(m, "res", e.id) THEN Fail(m, "malformed-trace-unknown-resource")
         ELSE IF ~m.exempt /\ \E k \in SvcAfter(m, e.id) : k \notin m.bodyend \/ k \notin m.ctxtd THEN Fail(m, "earlier-callback-ran-before-the-service-task-and-its-context-had-finished")
         ELSE Hit(m, IF SvcAfter(m, e.id) # {} THEN "cb-after-task" ELSE "cb")
    [] e.ev = "exit.end" ->
         IF ~m.exempt /\ \E k \in Svcs(m) : k \notin m.bodyend \/ k \notin m.ctxtd THEN Fail(m, "owning-block-left-while-a-service-task-was-still-running")
         ELSE IF ~m.exempt /\ \E k \in Svcs(m) : Action(m, k) = "cancel" /\ k \notin m.sawcancel /\ k \notin Range(e.selfended) THEN Fail(m, "cancel-action-did-not-cancel-the-task")
         ELSE IF ~m.exempt /\ \E k \in Svcs(m) : Action(m, k) \in {"call_ok", "call_async_ok", "call_raise", "call_async_raise"} /\ k \notin m.called THEN Fail(m, "teardown-callable-not-invoked")
         ELSE IF ~m.exempt /\ \E k \in Svcs(m) : Action(m, k) \in {"call_raise", "call_async_raise"} /\ k \notin m.sawcancel THEN Fail(m, "no-fallback-to-cancellation-after-the-teardown-callable-raised")
         ELSE [Hit(m, "left") EXCEPT !.ended = TRUE]
    [] e.ev = "root.exit.end" -> IF ~(m.crashed \subseteq Range(e.surfaced)) THEN Fail(m, "exception-of-a-service-task-vanished") ELSE Hit(m, "root-left")
    [] OTHER -> m
=============================================================================
