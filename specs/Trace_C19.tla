----------------------------- MODULE Trace_C19 -----------------------------
(* Decoration-time rows of C19: a positional-only, an unannotated or an uncalled `resource` marker is rejected when @inject
   is applied (TypeError); valid signatures are accepted. Cases: [id, kind, row, obs].                                   *)
EXTENDS Naturals, TLC, TLCExt, Json, IOUtils, Sequences
Cases == JsonDeserialize(IOEnv.TRACE_FILE)
VARIABLES i
Init == i \in 1..Len(Cases)
Next == FALSE /\ UNCHANGED i
Expected(row) == IF row \in {"positional-only", "unannotated", "uncalled-marker"} THEN "TypeError" ELSE "ok"
\* kind "differential": a decorated call and the explicit lookup made in the same context and state (a matching factory that itself
\* raises, e.g. ResourceNotFound for something it depends on) have to end the same way: obs = "same"
Report == LET c == Cases[i]
              w == IF c.kind = "differential" THEN (IF c.obs = "same" THEN "" ELSE "decorated-call-and-explicit-lookup-end-differently:" \o c.row \o ":" \o c.obs)
                   ELSE IF c.obs = Expected(c.row) THEN "" ELSE "decoration-of-" \o c.row \o "-gave-" \o c.obs IN
          PrintT(ToJson([end |-> c.id, ok |-> (w = ""), step |-> 1, why |-> w, hits |-> <<>>]))
=============================================================================
