----------------------------- MODULE Trace_C19 -----------------------------
(* Decoration-time rows of C19: a positional-only, an unannotated or an uncalled `resource` marker is rejected when @inject
   is applied (TypeError); valid signatures are accepted. Cases: [id, row, obs].                                   *)
EXTENDS Naturals, TLC, TLCExt, Json, IOUtils, Sequences
Cases == JsonDeserialize(IOEnv.TRACE_FILE)
VARIABLES i
Init == i \in 1..Len(Cases)
Next == FALSE /\ UNCHANGED i
Expected(row) == IF row \in {"positional-only", "unannotated", "uncalled-marker"} THEN "TypeError" ELSE "ok"
Report == LET c == Cases[i] w == IF c.obs = Expected(c.row) THEN "" ELSE "decoration-of-" \o c.row \o "-gave-" \o c.obs IN
          PrintT(ToJson([end |-> c.id, ok |-> (w = ""), step |-> 1, why |-> w, hits |-> <<>>]))
=============================================================================
