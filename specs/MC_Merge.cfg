INIT Init
NEXT Next
CONSTANT NLeaves = 3
INVARIANT KeysUnion
INVARIANT Pointwise
INVARIANT NoneIsEmpty
INVARIANT RightIdentity
INVARIANT LeftIdentity
INVARIANT Idempotent
INVARIANT NoDotSplit
CHECK_DEADLOCK FALSE
