INIT Init
NEXT Next
CONSTANTS
  MaxCbs = 2
  Kinds = {"ok", "exc", "base", "reraise"}
  Routes = {"direct", "resource", "resource2", "ctxtd"}
INVARIANT MonOk
INVARIANT AllRan
INVARIANT Dump
CONSTANT Durings = {TRUE, FALSE}
CHECK_DEADLOCK FALSE
