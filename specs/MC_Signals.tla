----------------------------- MODULE MC_Signals -----------------------------
EXTENDS Signals, Json
View == core
MC_ChanSeqs == {<<"1a">>, <<"1b">>, <<"2a">>, <<"1a", "1b">>, <<"1a", "2a">>}
MC_ChanSeqsQuick == {<<"1a">>, <<"1b">>, <<"2a">>, <<"1a", "1b">>}
MC_ChanSeqsBurst == {<<"1a">>, <<"1a", "1b">>}
MC_ChanSeqsOne == {<<"1a">>}
Tick == UNCHANGED core /\ obs' = [a |-> "tick"]
\* one worker: the source state is printed once, then one line per transition
NextP == /\ (Next \/ Tick)
         /\ IF TLCGet(1) = core THEN TRUE ELSE TLCSet(1, core) /\ PrintT(ToJson([s |-> <<sub, order, nextEv>>]))
         /\ IF obs'.a = "tick" THEN TRUE ELSE PrintT(ToJson([obs |-> obs', to |-> <<sub', order', nextEv'>>]))
InitP == Init /\ TLCSet(1, <<>>)
=============================================================================
