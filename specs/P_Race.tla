------------------------------- MODULE P_Race -------------------------------
(* Monitor for concurrent lookups that are satisfied by an asynchronous resource factory (C04, with the clauses of C02, C03
   and C18 that the same race can break). A deterministic fold over the events of one execution:
     begin(k, c)            task k asks context c for one of the factory's types
     call(k, c)             the factory body starts running on behalf of a lookup in context c (it then parks at a gate)
     release(c, ok)         the parked call of context c is released; ok = FALSE: the factory raises
     end(k, c, r, v)        the lookup of task k returns object v (r = "obj") or raises (r = "error")
     ev(c)                  a resource_added event for a generated resource arrives on context c
     q(blocked)             quiescent point: the set of tasks whose lookup has begun and not ended
     final(c, vals)         objects found under the factory's types in context c at the end
     static(k, c, got, want)  decorated-lookup variant: the static resource task k's decorated call received / the explicit lookup gives
   Clause names start with the properties they belong to.                                                        *)
EXTENDS Naturals, Sequences, FiniteSets
MonInit == [parked |-> {}, gen |-> <<>>, first |-> <<>>, evs |-> <<>>, done |-> <<>>, begun |-> {}, ended |-> {}, ctxOf |-> <<>>,
            ok |-> TRUE, why |-> "", whys |-> {}, hits |-> {}]
\* failures are collected (the fold continues), so that every property finds its own clauses
Fail(m, w) == [m EXCEPT !.ok = FALSE, !.why = IF @ = "" THEN w ELSE @, !.whys = @ \cup {w}]
Hit(m, h) == [m EXCEPT !.hits = @ \cup {h}]
Get(f, k, d) == IF k \in DOMAIN f THEN f[k] ELSE d
Put(f, k, v) == [x \in DOMAIN f \cup {k} |-> IF x = k THEN v ELSE f[x]]
MonNext(m, e) ==
  CASE e.ev = "begin" -> [m EXCEPT !.begun = @ \cup {e.k}, !.ctxOf = Put(@, e.k, e.c)]
    [] e.ev = "call" ->
         LET m1 == [m EXCEPT !.parked = @ \cup {e.c}, !.gen = Put(@, e.c, Get(@, e.c, 0) + 1)] IN
         IF e.c \in m.parked THEN Fail(Hit(m1, "race"), "C04:factory-called-while-a-generation-for-the-same-context-is-in-progress")
         ELSE IF Get(m.done, e.c, FALSE) THEN Fail(m1, "C04:factory-called-again-after-it-generated-for-this-context")
         ELSE m1
    [] e.ev = "release" -> [m EXCEPT !.parked = @ \ {e.c}, !.done = IF e.ok THEN Put(@, e.c, TRUE) ELSE @]
    [] e.ev = "end" ->
         LET m1 == [m EXCEPT !.ended = @ \cup {e.k}] IN
         IF e.r # "obj" THEN m1
         ELSE IF \E d \in DOMAIN m.first : d # e.c /\ m.first[d] = e.v THEN Fail(m1, "C02,C04:generated-object-shared-between-contexts")
         ELSE IF e.c \in DOMAIN m.first /\ m.first[e.c] # e.v THEN Fail(Hit(m1, "race"), "C04,C03:lookups-in-one-context-returned-different-objects")
         ELSE [Hit(m1, IF e.c \in DOMAIN m.first THEN "race" ELSE "single") EXCEPT !.first = Put(@, e.c, e.v)]
    [] e.ev = "ev" ->
         LET n == Get(m.evs, e.c, 0) + 1 IN
         IF n > 1 THEN Fail([m EXCEPT !.evs = Put(@, e.c, n)], "C18,C04:more-than-one-event-for-the-generation-in-one-context")
         ELSE [m EXCEPT !.evs = Put(@, e.c, n)]
    [] e.ev = "q" ->
         LET S == {e.blocked[i] : i \in DOMAIN e.blocked} IN
         IF \E k \in S : k \in DOMAIN m.ctxOf /\ Get(m.done, m.ctxOf[k], FALSE) /\ m.ctxOf[k] \notin m.parked
         THEN Fail(m, "C04:lookup-still-blocked-after-the-generation-finished")
         \* nobody generates for the context (the generating lookup failed or was cancelled) and yet a lookup goes on waiting
         ELSE IF \E k \in S : k \in DOMAIN m.ctxOf /\ ~Get(m.done, m.ctxOf[k], FALSE) /\ m.ctxOf[k] \notin m.parked
         THEN Fail(m, "C04:lookup-blocked-although-no-generation-is-in-progress-for-its-context")
         ELSE m
    [] e.ev = "final" ->
         IF e.c \in DOMAIN m.first /\ \E i \in DOMAIN e.vals : e.vals[i] # m.first[e.c] THEN Fail(m, "C04,C03:table-holds-another-object-than-the-lookups-returned")
         ELSE IF e.c \notin DOMAIN m.first /\ e.vals # <<>> /\ ~Get(m.done, e.c, FALSE) THEN Fail(m, "C02,C04:context-holds-a-generated-object-it-never-asked-for")
         ELSE IF Get(m.done, e.c, FALSE) /\ Get(m.evs, e.c, 0) = 0 THEN Fail(m, "C18:no-event-for-the-generation")
         ELSE m
    \* (decorated-lookup variant, C19) the static resource a decorated call received next to the generated one, against the explicit lookup
    [] e.ev = "static" -> IF e.got # e.want THEN Fail(m, "C19:decorated-call-received-the-static-resource-of-another-context") ELSE Hit(m, "static")
    [] OTHER -> m
=============================================================================
