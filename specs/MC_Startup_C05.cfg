INIT Init
NEXT Next
CONSTANTS
  MaxComps = 3
  PrepOps <- Ops5
  StartOps <- Ops5
  MinLen = 0
  MaxLen = 1
  Faults = FALSE
  Timeouts = FALSE
  Drns = {"default"}
INVARIANT Mon5Ok
INVARIANT Mon6Ok
INVARIANT OrderOnState
INVARIANT NoLostWakeup
INVARIANT Dump
CHECK_DEADLOCK FALSE
