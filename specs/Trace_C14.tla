----------------------------- MODULE Trace_C14 -----------------------------
(* Batch verdicts for C14. A case is [id, scn |-> [classes, names, root, cfg], obs], where obs records two consecutive
   start_component calls from the same configuration object:
     obs = [raised, first |-> seq of nodes, second |-> seq of nodes, cfg_after]
     node = [path, cls, kwargs, prep, start, named, fac]  (the last four: names under which the additions are visible) *)
EXTENDS Config, TLCExt, Json, IOUtils
Cases == JsonDeserialize(IOEnv.TRACE_FILE)
VARIABLES i
Init == i \in 1..Len(Cases)
Next == FALSE /\ UNCHANGED i
Range(q) == {q[j] : j \in DOMAIN q}
NodeWhy(e, o) ==
  IF o.cls # e.cls THEN "wrong-component-class"
  ELSE IF ~EqD(o.kwargs, e.kwargs) THEN "wrong-constructor-arguments"
  ELSE IF Range(o.prep) # Published(e).prep THEN "prepare-resource-under-wrong-name"
  ELSE IF Range(o.start) # Published(e).start \/ Range(o.fac) # Published(e).fac THEN "start-resource-under-wrong-default-name"
  ELSE IF Range(o.named) # Published(e).named THEN "explicitly-named-resource-renamed"
  ELSE ""
TreeWhy(exp, nodes) ==
  LET op == {nodes[j].path : j \in DOMAIN nodes} ep == DOMAIN exp IN
  IF \E j, k \in DOMAIN nodes : j # k /\ nodes[j].path = nodes[k].path THEN "component-started-twice"
  ELSE IF ep \ op # {} THEN "component-missing"
  ELSE IF op \ ep # {} THEN "unexpected-component"
  ELSE LET bad == {j \in DOMAIN nodes : NodeWhy(exp[nodes[j].path], nodes[j]) # ""} IN
       IF bad = {} THEN "" ELSE LET j == CHOOSE j \in bad : TRUE IN NodeWhy(exp[nodes[j].path], nodes[j])
Why(c) ==
  LET exp == BuildTree(c.scn.classes, c.scn.names, c.scn.root, c.scn.cfg.v) IN
  IF c.obs.raised THEN "start_component-raised"
  ELSE IF TreeWhy(exp, c.obs.first) # "" THEN TreeWhy(exp, c.obs.first)
  ELSE IF ~EqV(c.obs.cfg_after, c.scn.cfg) THEN "configuration-object-modified"
  ELSE IF TreeWhy(exp, c.obs.second) # "" THEN "second-start-differs:" \o TreeWhy(exp, c.obs.second)
  ELSE ""
Report == LET c == Cases[i] w == Why(c) IN
          PrintT(ToJson([end |-> c.id, ok |-> (w = ""), step |-> 1, why |-> w, hits |-> <<>>]))
=============================================================================
