----------------------------- MODULE Trace_C15 -----------------------------
(* Batch validation of recorded run_application executions against the monitor P_C15. *)
EXTENDS P_C15, TLC, TLCExt, Json, IOUtils, SequencesExt
Traces == JsonDeserialize(IOEnv.TRACE_FILE)
VARIABLES tid, l, m
Init == tid \in 1..Len(Traces) /\ l = 1 /\ m = MonInit
Next == /\ l <= Len(Traces[tid].events)
        /\ m' = MonNext(Traces[tid].prog, m, Traces[tid].events[l])
        /\ l' = l + 1 /\ UNCHANGED tid
Report == (l = Len(Traces[tid].events) + 1) =>
            PrintT(ToJson([end |-> Traces[tid].id, ok |-> m.ok, step |-> l - 1, why |-> m.why, hits |-> SetToSeq(m.hits)]))
=============================================================================
