------------------------------ MODULE Signals ------------------------------
(* The signal/event system of asphalt (src/asphalt/core/_event.py). A channel is a bound signal: one (instance, Signal
   attribute) pair. A subscriber is either a stream opened with stream_events over one or two channels, with a filter and
   a bounded queue, or a wait_event call (subscribe, first event passing the filter, unsubscribe). Deliberate behaviours of
   the implementation are modelled as they are: the filter runs on the receiving side, so events that do not pass still
   occupy queue slots; a receiver that is waiting is handed the event directly, even when the queue size is 0; overflow
   affects only the full subscriber and produces one SignalQueueFull warning per lost (subscriber, event).

   Events are numbered in dispatch order; "even" filters pass even numbers. Every dispatch is stamped with the channel.     *)
EXTENDS Naturals, Sequences, FiniteSets, TLC
CONSTANTS Chans,      \* channel names, e.g. "1a" = attribute a of instance 1
          ChanSeqs,   \* the channel lists a subscriber may listen to
          Subs, MaxEv, QMaxes,
          AbandonSubs, \* the subscribers that may give up waiting inside their block (a subset of Subs, to bound the graph)
          Bursts       \* TRUE: dispatches may follow each other without the receiving tasks getting to run in between
Filters == {"all", "even"}
VARIABLES sub,      \* [Subs -> subscriber record]
          order,    \* [Chans -> Seq(Subs)]  subscription order per channel (delivery order)
          nextEv, obs
core == <<sub, order, nextEv>>
vars == <<core, obs>>
\* transit: the item handed directly to the waiting receiver, which its task has not looked at yet (the task runs at the next
\* settling point; until then the receiver is not waiting and further items go to the queue - or overflow)
Off == [st |-> "off", kind |-> "stream", chs |-> <<>>, flt |-> "all", qmax |-> 0, queue |-> <<>>, waiting |-> FALSE, dead |-> FALSE, got |-> <<>>, transit |-> <<>>]
NoTransit == \A s \in Subs : sub[s].transit = <<>>
Init == sub = [s \in Subs |-> Off] /\ order = [a \in Chans |-> <<>>] /\ nextEv = 1 /\ obs = [a |-> "init"]
Pass(f, n) == f = "all" \/ n % 2 = 0
Range(q) == {q[i] : i \in DOMAIN q}
Remove(q, x) == SelectSeq(q, LAMBDA y : y # x)
Unsub(ord, s) == [a \in Chans |-> Remove(ord[a], s)]
\* stream_events(signals, filter, max_queue_size=qm): the subscription exists from the moment the block is entered
Subscribe(s, chs, f, qm) ==
  /\ NoTransit /\ sub[s].st = "off"
  /\ sub' = [sub EXCEPT ![s] = [Off EXCEPT !.st = "on", !.chs = chs, !.flt = f, !.qmax = qm]]
  /\ order' = [a \in Chans |-> IF a \in Range(chs) THEN Append(order[a], s) ELSE order[a]]
  /\ UNCHANGED nextEv
  /\ obs' = [a |-> "Subscribe", s |-> s, chs |-> chs, f |-> f, qm |-> qm]
\* wait_event(signals, filter): a stream with the default queue size whose first item is awaited at once
WaitEvent(s, chs, f) ==
  /\ NoTransit /\ sub[s].st = "off"
  /\ sub' = [sub EXCEPT ![s] = [Off EXCEPT !.st = "on", !.kind = "wait", !.chs = chs, !.flt = f, !.qmax = 50, !.waiting = TRUE]]
  /\ order' = [a \in Chans |-> IF a \in Range(chs) THEN Append(order[a], s) ELSE order[a]]
  /\ UNCHANGED nextEv
  /\ obs' = [a |-> "WaitEvent", s |-> s, chs |-> chs, f |-> f]
\* one subscriber is sent event <<n, ch>> (anyio's send_nowait): result <<new record, warned>>
Deliver(r, e) ==
  IF r.waiting THEN <<[r EXCEPT !.waiting = FALSE, !.transit = <<e>>], FALSE>>
  ELSE IF Len(r.queue) < r.qmax THEN <<[r EXCEPT !.queue = Append(@, e)], FALSE>>
  ELSE <<r, TRUE>>
RECURSIVE FirstPass(_, _)
FirstPass(q, f) == IF q = <<>> THEN 0 ELSE IF Pass(f, Head(q)[1]) THEN 1 ELSE (LET r == FirstPass(Tail(q), f) IN IF r = 0 THEN 0 ELSE r + 1)
\* the receiving task gets to run: it looks at the item it was handed; if that does not pass the filter it goes on with the queue,
\* and waits again when nothing passes. Result <<new record, finished (wait_event returned)>>
SettleOne(r) ==
  IF r.transit = <<>> THEN <<r, FALSE>>
  ELSE LET items == r.transit \o r.queue
           i == FirstPass(items, r.flt) IN
       IF i = 0 THEN <<[r EXCEPT !.transit = <<>>, !.queue = <<>>, !.waiting = TRUE], FALSE>>
       ELSE <<[r EXCEPT !.transit = <<>>, !.queue = SubSeq(items, i + 1, Len(items)), !.got = Append(@, items[i])], r.kind = "wait">>
Settled(f) ==      \* f: [Subs -> record]; everybody's task runs
  LET a == [s \in Subs |-> SettleOne(f[s])]
      fin == {s \in Subs : a[s][2]} IN
  [subs |-> [s \in Subs |-> IF s \in fin THEN [a[s][1] EXCEPT !.st = "done", !.queue = <<>>] ELSE a[s][1]], fin |-> fin]
\* Signal.dispatch(event): never blocks, never raises because of a subscriber; an event of the wrong class is a TypeError.
\* settle = TRUE: the receiving tasks run before anything else happens (the usual case: the dispatcher reaches a checkpoint);
\* settle = FALSE (only with Bursts): the next dispatch follows at once
Dispatch(ch, wrong, settle) ==
  /\ nextEv <= MaxEv /\ (settle \/ Bursts)
  /\ IF wrong THEN /\ settle /\ NoTransit /\ UNCHANGED core
                    /\ obs' = [a |-> "Dispatch", ch |-> ch, wrong |-> TRUE, settle |-> TRUE, r |-> "TypeError", warns |-> <<>>]
     ELSE LET e == <<nextEv, ch>>
              res == [s \in Subs |-> IF s \in Range(order[ch]) THEN Deliver(sub[s], e) ELSE <<sub[s], FALSE>>]
              sent == [s \in Subs |-> res[s][1]]
              after == IF settle THEN Settled(sent) ELSE [subs |-> sent, fin |-> {}] IN
          /\ sub' = after.subs
          /\ order' = [a \in Chans |-> SelectSeq(order[a], LAMBDA y : y \notin after.fin)]
          /\ nextEv' = nextEv + 1
          /\ obs' = [a |-> "Dispatch", ch |-> ch, wrong |-> FALSE, settle |-> settle, n |-> nextEv, r |-> "ok",
                     warns |-> [i \in 1..Cardinality({s \in Subs : res[s][2]}) |-> "w"]]
\* the end of a burst: the dispatcher reaches a checkpoint, every receiving task runs
Settle ==
  /\ ~NoTransit
  /\ LET after == Settled(sub) IN
     /\ sub' = after.subs
     /\ order' = [a \in Chans |-> SelectSeq(order[a], LAMBDA y : y \notin after.fin)]
  /\ UNCHANGED nextEv
  /\ obs' = [a |-> "Settle"]
\* the consumer asks for the next item: items that do not pass the filter are discarded; with nothing left it waits
Consume(s) ==
  /\ NoTransit /\ sub[s].st = "on" /\ sub[s].kind = "stream" /\ ~sub[s].waiting /\ ~sub[s].dead
  /\ LET r == sub[s] i == FirstPass(r.queue, r.flt) IN
     IF i = 0 THEN /\ sub' = [sub EXCEPT ![s] = [r EXCEPT !.queue = <<>>, !.waiting = TRUE]]
                   /\ obs' = [a |-> "Consume", s |-> s, r |-> "blocked"]
     ELSE /\ sub' = [sub EXCEPT ![s] = [r EXCEPT !.queue = SubSeq(@, i + 1, Len(@)), !.got = Append(@, r.queue[i])]]
          /\ obs' = [a |-> "Consume", s |-> s, r |-> "got", n |-> r.queue[i][1]]
  /\ UNCHANGED <<order, nextEv>>
\* the consumer gives up waiting for the next item (a timeout around __anext__) but stays inside its stream block: its iterator is
\* finished, the subscription and the queue remain until the block is left; dispatch must go on treating it like any slow subscriber
Abandon(s) ==
  /\ NoTransit /\ s \in AbandonSubs /\ sub[s].st = "on" /\ sub[s].kind = "stream" /\ sub[s].waiting
  /\ sub' = [sub EXCEPT ![s] = [@ EXCEPT !.waiting = FALSE, !.dead = TRUE]]
  /\ UNCHANGED <<order, nextEv>>
  /\ obs' = [a |-> "Abandon", s |-> s]
\* the subscriber leaves its stream block (or its wait_event call is cancelled), whatever it was doing
Leave(s) ==
  /\ NoTransit /\ sub[s].st = "on"
  /\ sub' = [sub EXCEPT ![s] = [@ EXCEPT !.st = "done", !.waiting = FALSE, !.dead = FALSE, !.queue = <<>>]]
  /\ order' = Unsub(order, s)
  /\ UNCHANGED nextEv
  /\ obs' = [a |-> "Leave", s |-> s]
\* stream_events / wait_event over a list that contains a signal not bound to an instance (the attribute read on the class) raises
\* UnboundSignal and leaves nothing behind: the bound signal listed before it is not left subscribed, later dispatches are unaffected.
\* (One representative per state: the first idle subscriber, <<ch, unbound>>, the kind alternating with the event counter.)
BadSubscribe(s, ch) ==
  /\ NoTransit /\ sub[s].st = "off" /\ \A t \in Subs : t < s => sub[t].st # "off"
  /\ nextEv <= MaxEv
  /\ UNCHANGED core
  /\ obs' = [a |-> "BadSubscribe", s |-> s, ch |-> ch, kind |-> IF nextEv % 2 = 0 THEN "wait" ELSE "stream", r |-> "UnboundSignal"]
Next == \/ \E s \in Subs, chs \in ChanSeqs, f \in Filters, qm \in QMaxes : Subscribe(s, chs, f, qm)
        \/ \E s \in Subs, chs \in ChanSeqs, f \in Filters : WaitEvent(s, chs, f)
        \/ \E ch \in Chans, w \in BOOLEAN, st \in BOOLEAN : Dispatch(ch, w, st)
        \/ Settle
        \/ \E s \in Subs : Consume(s) \/ Leave(s) \/ Abandon(s)
        \* last, so that the walker (which takes a state's transitions from the end of the dump) tries it before the dispatches
        \/ \E s \in Subs, ch \in Chans : BadSubscribe(s, ch)
(* ------------------------------------------------ properties of the design ------------------------------------------- *)
\* C10: what a subscriber has yielded is in dispatch order without duplicates, passes its filter and comes from its channels (C11)
InOrder == \A s \in Subs : \A i \in 1..(Len(sub[s].got) - 1) : sub[s].got[i][1] < sub[s].got[i + 1][1]
OwnChannelsOnly == \A s \in Subs : \A i \in DOMAIN sub[s].got : sub[s].got[i][2] \in Range(sub[s].chs) /\ Pass(sub[s].flt, sub[s].got[i][1])
QueueOwnChannels == \A s \in Subs : \A i \in DOMAIN sub[s].queue : sub[s].queue[i][2] \in Range(sub[s].chs)
QueueBounded == \A s \in Subs : Len(sub[s].queue) <= sub[s].qmax
\* only active subscribers are registered, each at most once per channel
Registered == \A a \in Chans : \A i \in DOMAIN order[a] : sub[order[a][i]].st = "on" /\ a \in Range(sub[order[a][i]].chs)
              /\ \A j \in DOMAIN order[a] : order[a][i] = order[a][j] => i = j
\* wait_event returns exactly one event
WaitOne == \A s \in Subs : sub[s].kind = "wait" => Len(sub[s].got) <= 1 /\ (Len(sub[s].got) = 1 <=> sub[s].st = "done" /\ ~sub[s].waiting /\ sub[s].got # <<>>)
\* a dispatch touches only the subscribers of its own channel (C11)
\* (a receiver that was handed an item during a burst gets to run when the burst ends, whichever dispatch ends it)
Isolation == [][obs'.a = "Dispatch" => \A s \in Subs : (obs'.ch \notin Range(sub[s].chs) /\ sub[s].transit = <<>>) => sub'[s] = sub[s]]_vars
\* without bursts nobody is ever seen in transit; in transit means: was waiting, is not waiting, holds exactly one item of its own channels
TransitOnlyInBursts == \A s \in Subs : /\ (~Bursts => sub[s].transit = <<>>)
                                       /\ (sub[s].transit # <<>> => Len(sub[s].transit) = 1 /\ ~sub[s].waiting /\ sub[s].st = "on" /\ sub[s].transit[1][2] \in Range(sub[s].chs))
=============================================================================
