-------------------------------- MODULE Runner --------------------------------
(* run_application at coarse grain (src/asphalt/core/_runner.py): a root context, start-up of a small component tree on a
   fixed virtual timeline (each prepare()/start() takes one time unit and registers a teardown callback when it begins), then
   either a CLI component's run() or waiting for a termination signal. A program fixes the tree, the kind of root component
   and ONE ending. The specification computes the documented outcome and which registrations exist when the ending strikes;
   the teardown of the root context must run all of them exactly once in reverse order before run_application returns or raises.

   Timeline with n components (1 = root, 2..n its children):  root.prepare [0,1)  children.prepare [1,2)  children.start [2,3)
   root.start [3,4)  start-up complete at 4; CLI run() returns (or raises) at 5.                                          *)
EXTENDS Naturals, Integers, Sequences, FiniteSets, TLC
CONSTANTS MaxComps
Results == {"none", "0", "5", "127", "128", "-1", "str", "emptystr", "float0", "list", "enum0", "enum78", "true"}
Phases == {"creating", "preparing", "starting"}
\* ending kinds: cli result / run() raises / a component fails / start-up stalls beyond the timeout / a signal at time `at` (in halves:
\* 1 = 0.5, 3 = 1.5, ...) / a service task crashing at time `at`
Endings == [kind : {"result"}, r : Results] \cup [kind : {"runraises"}] \cup [kind : {"fail"}, c : 1..MaxComps, phase : Phases]
           \cup [kind : {"timeout"}, c : 1..MaxComps] \cup [kind : {"signal"}, sig : {"SIGINT", "SIGTERM"}, at : {1, 3, 5, 7, 9}]
           \cup [kind : {"crash"}, at : {5, 7, 9}]
           \cup [kind : {"fail2"}]                       \* two sibling components (2 and 3) fail in start() at the same moment
VARIABLES prog, done
vars == <<prog, done>>
Valid(p) == /\ (p.end.kind \in {"result", "runraises"} => p.cli)
            /\ (p.end.kind = "signal" /\ p.end.at = 9 => ~p.cli)          \* a signal during run() of a CLI application is not specified
            /\ (p.end.kind = "crash" /\ p.end.at = 9 => ~p.cli)
            /\ (p.end.kind \in {"fail", "timeout"} => p.end.c <= p.n)
            /\ (p.end.kind = "fail2" => p.n >= 3)
\* late: the callback registered first (by the root's prepare(), so it runs last) registers one more callback while it runs, i.e.
\* while the root context is already being torn down; that one has to run as well before run_application finishes
Init == /\ prog \in {p \in [n : 1..MaxComps, cli : BOOLEAN, end : Endings, late : BOOLEAN] : Valid(p)} /\ done = FALSE
Next == ~done /\ done' = TRUE /\ UNCHANGED prog
\* ---- the documented outcome ----
StartupDone == 8                                   \* time 4, in halves
Outcome(p) ==
  LET e == p.end IN
  \* enum0 / enum78: members of an IntEnum (integers all the same); true: the bool True, i.e. the integer 1
  CASE e.kind = "result" -> (IF e.r \in {"none", "0", "enum0"} THEN [k |-> "return"] ELSE IF e.r = "5" THEN [k |-> "exit", code |-> 5]
                             ELSE IF e.r = "127" THEN [k |-> "exit", code |-> 127] ELSE IF e.r = "enum78" THEN [k |-> "exit", code |-> 78]
                             ELSE [k |-> "exit", code |-> 1])
    [] e.kind = "runraises" -> [k |-> "raise", exc |-> "RunBoom"]
    [] e.kind \in {"fail", "timeout", "fail2"} -> [k |-> "exit", code |-> 1]
    [] e.kind = "signal" -> IF e.at < StartupDone THEN [k |-> "exit", code |-> 1] ELSE [k |-> "return"]
    [] e.kind = "crash" -> IF e.at < StartupDone THEN [k |-> "any"] ELSE [k |-> "raise", exc |-> "CrashBoom"]
\* ---- lemmas on the outcome table (the statement read on the specification) ----
CodesInRange == done => (Outcome(prog).k = "exit" => Outcome(prog).code \in 1..127)
StartupProblemsExitOne == (done /\ (prog.end.kind \in {"fail", "timeout", "fail2"} \/ (prog.end.kind = "signal" /\ prog.end.at < StartupDone))) => Outcome(prog) = [k |-> "exit", code |-> 1]
InvalidResultsExitOne == (done /\ prog.end.kind = "result" /\ prog.end.r \in {"128", "-1", "str", "emptystr", "float0", "list"}) => Outcome(prog) = [k |-> "exit", code |-> 1]
CleanSignalAfterStartup == (done /\ prog.end.kind = "signal" /\ prog.end.at >= StartupDone /\ ~prog.cli) => Outcome(prog) = [k |-> "return"]
=============================================================================
