------------------------------- MODULE MC_Cur -------------------------------
(* hist and the monitor are hidden from the state (VIEW), so every distinct configuration is expanded once; every transition is
   printed with the path that first reached its source state.                                                          *)
EXTENDS Cur, Json
View == state
NextP == Next /\ PrintT(ToJson([h |-> hist']))
=============================================================================
