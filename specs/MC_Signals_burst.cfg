INIT InitP
NEXT NextP
VIEW View
CONSTANTS
  Chans = {"1a", "1b"}
  ChanSeqs <- MC_ChanSeqsBurst
  Subs = {1, 2}
  MaxEv = 2
  AbandonSubs = {}
  QMaxes = {0, 1}
  Bursts = TRUE
CHECK_DEADLOCK FALSE
