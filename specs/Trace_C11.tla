----------------------------- MODULE Trace_C11 -----------------------------
(* The static rows of C11, validated in batch. Cases:
     identity: rows [i1, a1, i2, a2, same] over instances 1, 2 (a subclass instance using inherited signals) and 3 (a copy of 1
               made after first access), stable (repeated access gives the same object), meta [i, a, topic, source_ok,
               accepts_own_class, rejects_other_class]
     unbound:  uses [use, obs]   every use of a signal through the class must raise UnboundSignal
     weak:     rows [variant, dead]  the owner must be collectable; the case "cycle" reuses the shape: dead = the attribute gave the
               same bound signal before, during and after a complete subscribe / unsubscribe history; "reuse": a new instance
               allocated at the address of a dead one gets its own bound signal; "private": name-mangled signals `__x` declared by
               a base class and by its subclass are two independent channels with their own event classes; "falsy": an owner instance
               whose truth value is False (empty container, __bool__) is an instance like any other; "equal": two different instances that
               compare equal (value __eq__/__hash__, frozen dataclass) are two owners: own bound signals, no delivery across                                                       *)
EXTENDS Naturals, Sequences, TLC, TLCExt, Json, IOUtils
Cases == JsonDeserialize(IOEnv.TRACE_FILE)
VARIABLES i
Init == i \in 1..Len(Cases)
Next == FALSE /\ UNCHANGED i
\* same bound signal exactly for the same instance and the same attribute
SameBound(r) == r.i1 = r.i2 /\ r.a1 = r.a2
Why(c) ==
  IF c.kind = "identity" THEN
       IF \E j \in DOMAIN c.rows : c.rows[j].same # SameBound(c.rows[j]) THEN
            LET j == CHOOSE j \in DOMAIN c.rows : c.rows[j].same # SameBound(c.rows[j]) IN
            IF c.rows[j].same THEN "bound-signal-shared-between-" \o c.rows[j].i1 \o c.rows[j].a1 \o "-and-" \o c.rows[j].i2 \o c.rows[j].a2
            ELSE "bound-signal-not-stable-for-" \o c.rows[j].i1 \o c.rows[j].a1
       ELSE IF ~c.stable THEN "repeated-access-gives-a-different-bound-signal"
       ELSE IF \E j \in DOMAIN c.meta : c.meta[j].topic # c.meta[j].a THEN "bound-signal-carries-the-wrong-attribute-name"
       ELSE IF \E j \in DOMAIN c.meta : ~c.meta[j].source_ok THEN "event-source-is-not-the-dispatching-instance"
       ELSE IF \E j \in DOMAIN c.meta : ~c.meta[j].accepts_own_class THEN "event-of-the-attributes-class-rejected"
       ELSE IF \E j \in DOMAIN c.meta : ~c.meta[j].rejects_other_class THEN "event-of-the-wrong-class-not-rejected-with-TypeError"
       ELSE ""
  ELSE IF c.kind = "unbound" THEN
       IF \E j \in DOMAIN c.uses : c.uses[j].obs # "UnboundSignal" THEN
            LET j == CHOOSE j \in DOMAIN c.uses : c.uses[j].obs # "UnboundSignal" IN "class-level-use-" \o c.uses[j].use \o "-gave-" \o c.uses[j].obs
       ELSE ""
  ELSE IF \E j \in DOMAIN c.rows : ~c.rows[j].dead THEN (IF c.id = "cycle" THEN "bound-signal-changes-across-a-subscription-cycle"
                                                             ELSE IF c.id = "reuse" THEN "bound-signal-of-a-dead-instance-handed-to-a-new-instance"
                                                             ELSE IF c.id = "private" THEN "private-signals-of-base-and-subclass-share-a-bound-signal"
                                                             ELSE IF c.id = "context" THEN "bound-signal-of-a-context-changes-over-its-life-cycle"
                                                             ELSE IF c.id = "copy-delivery" THEN "events-cross-between-an-instance-and-its-copy"
                                                             ELSE IF c.id = "falsy" THEN "falsy-owner-instance-not-treated-as-an-instance"
                                                             ELSE IF c.id = "equal" THEN "different-instances-that-compare-equal-share-a-bound-signal"
                                                             ELSE "binding-keeps-the-owner-alive") ELSE ""
Report == LET c == Cases[i] w == Why(c) IN
          PrintT(ToJson([end |-> c.id, ok |-> (w = ""), step |-> 1, why |-> w, hits |-> <<>>]))
=============================================================================
