INIT Init
NEXT EvalP
CONSTANT MaxFiles = 2
CONSTANT MaxSets = 2
INVARIANT FlagWins
INVARIANT MissingServiceFails
INVARIANT ServiceOverTop
INVARIANT TopClean
INVARIANT SetVisible
INVARIANT BadOverrideFails
CHECK_DEADLOCK FALSE
