INIT Init
NEXT Next
VIEW View
CONSTANTS
  Chans = {"1a", "1b", "2a"}
  ChanSeqs <- MC_ChanSeqs
  Subs = {1, 2}
  MaxEv = 3
  AbandonSubs = {1, 2}
  QMaxes = {0, 1, 2}
INVARIANT InOrder
INVARIANT OwnChannelsOnly
INVARIANT QueueOwnChannels
INVARIANT QueueBounded
INVARIANT Registered
INVARIANT WaitOne
PROPERTY Isolation
CHECK_DEADLOCK FALSE
