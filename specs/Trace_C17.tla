----------------------------- MODULE Trace_C17 -----------------------------
(* Batch verdicts for C17: every recorded call of the real merge_config is compared with the specification.
   A case is [id, a, b, raised, out, a_after, b_after, fresh]; a and b are tagged values (dictionary or None).      *)
EXTENDS Config, TLCExt, Json, IOUtils
Cases == JsonDeserialize(IOEnv.TRACE_FILE)
VARIABLES i
Init == i \in 1..Len(Cases)
Next == FALSE /\ UNCHANGED i
Why(c) ==
  IF c.raised THEN "raised"
  ELSE IF ~IsD(c.out) THEN "result-not-a-dict"
  ELSE IF ~EqD(c.out.v, MergeCfg(c.a, c.b)) THEN
         (IF DOMAIN c.out.v # DOMAIN AsDict(c.a) \cup DOMAIN AsDict(c.b) THEN "key-set-not-the-union" ELSE "wrong-value")
  ELSE IF ~EqV(c.a_after, c.a) THEN "original-modified"
  ELSE IF ~EqV(c.b_after, c.b) THEN "overrides-modified"
  ELSE IF ~c.fresh THEN "result-is-an-argument"
  ELSE ""
Report == LET c == Cases[i] w == Why(c) IN
          PrintT(ToJson([end |-> c.id, ok |-> (w = ""), step |-> 1, why |-> w, hits |-> <<>>]))
=============================================================================
