------------------------------- MODULE Plugins -------------------------------
(* Naming things by reference (src/asphalt/core/_utils.py: resolve_reference, PluginContainer.resolve / create_object / names),
   which is how a component type "may be given equivalently as a class, a module:attr reference or an entry-point name" (C14).
   Pure operators over a fixed small world of importable objects (mirrored by harness/fixtures/verif_plug_fixture.py and the
   entry-point group "verif.plugins"); a reference is already split: a module part and the dotted attribute path after the colon.

   x = [k |-> "obj", id]                       any object that is not a string: taken as it is
       [k |-> "plain", s]                      a string without a colon: resolve_reference returns it unchanged; a container
                                               takes it for the name of an entry point
       [k |-> "ref", mod, path]                "mod:a.b.c" (path = <<"a","b","c">>; "mod:" has path <<"">>)
   result = [r |-> "obj", v] | [r |-> "same"] | [r |-> "inst", v (class)] | [r |-> "err", e (exception class)]              *)
EXTENDS Naturals, Sequences, FiniteSets, TLC
Mods == {"verif_plug_fixture"}
Root == "M"                                   \* the module object
Attr == <<Root, "Base">> :> "Base" @@ <<Root, "Good">> :> "Good" @@ <<"Good", "Inner">> :> "Inner" @@ <<"Inner", "deep">> :> "deep"
        @@ <<Root, "Other">> :> "Other" @@ <<Root, "func">> :> "func" @@ <<Root, "VALUE">> :> "VALUE"
Classes == {"Base", "Good", "Inner", "Other"}
SubOfBase == {"Base", "Good", "Inner"}        \* the container's base class is Base
\* the entry points of the group, in the order of the metadata file
EPs == << [name |-> "good", mod |-> "verif_plug_fixture", path |-> <<"Good">>], [name |-> "inner", mod |-> "verif_plug_fixture", path |-> <<"Good", "Inner">>],
          [name |-> "other", mod |-> "verif_plug_fixture", path |-> <<"Other">>], [name |-> "func", mod |-> "verif_plug_fixture", path |-> <<"func">>],
          [name |-> "noattr", mod |-> "verif_plug_fixture", path |-> <<"Missing">>], [name |-> "nomod", mod |-> "verif_no_such_module", path |-> <<"X">>] >>
EPNames == [i \in DOMAIN EPs |-> EPs[i].name]
Err(e) == [r |-> "err", e |-> e]
Obj(v) == [r |-> "obj", v |-> v]
RECURSIVE Walk(_, _)
Walk(o, path) == IF path = <<>> THEN [ok |-> TRUE, v |-> o]
                 ELSE IF <<o, Head(path)>> \in DOMAIN Attr THEN Walk(Attr[<<o, Head(path)>>], Tail(path)) ELSE [ok |-> FALSE, v |-> ""]
\* resolve_reference(ref)
ResolveRef(x) ==
  IF x.k = "obj" THEN Obj(x.id)
  ELSE IF x.k = "plain" THEN [r |-> "same"]
  ELSE IF x.mod \notin Mods THEN Err("LookupError")
  ELSE LET w == Walk(Root, x.path) IN IF w.ok THEN Obj(w.v) ELSE Err("LookupError")
\* EntryPoint.load(): the errors of the import system come through as they are
Load(ep) == IF ep.mod \notin Mods THEN Err("ModuleNotFoundError")
            ELSE LET w == Walk(Root, ep.path) IN IF w.ok THEN Obj(w.v) ELSE Err("AttributeError")
\* PluginContainer.resolve(x) with the set of entry-point names loaded so far; result <<result, new cache>>
Resolve(cache, x) ==
  IF x.k # "plain" THEN <<ResolveRef(x), cache>>
  ELSE IF \E i \in DOMAIN EPs : EPs[i].name = x.s
       THEN LET ep == EPs[CHOOSE i \in DOMAIN EPs : EPs[i].name = x.s]
                res == Load(ep) IN
            <<res, IF res.r = "obj" THEN cache \cup {x.s} ELSE cache>>
       ELSE <<Err("LookupError"), cache>>
\* PluginContainer.create_object(x, **kwargs): only subclasses of the base class are instantiated
Create(cache, x) ==
  LET p == Resolve(cache, x)
      res == p[1] IN
  IF res.r = "err" THEN p
  ELSE IF res.r = "same" THEN <<Err("TypeError"), p[2]>>         \* (unreachable through a container: plain strings are entry-point names)
  ELSE IF res.v \in Classes /\ res.v \in SubOfBase THEN <<[r |-> "inst", v |-> res.v], p[2]>>
  ELSE <<Err("TypeError"), p[2]>>
\* the statement's equivalence, read on the specification: an entry point, the reference it was declared with and the object itself
\* resolve to the same thing, whatever was resolved before
Equivalent == \A i \in DOMAIN EPs : \A cache \in SUBSET {EPs[j].name : j \in DOMAIN EPs} :
                 LET byName == Resolve(cache, [k |-> "plain", s |-> EPs[i].name])[1]
                     byRef == Resolve(cache, [k |-> "ref", mod |-> EPs[i].mod, path |-> EPs[i].path])[1] IN
                 /\ (byName.r = "obj" <=> byRef.r = "obj")
                 /\ (byName.r = "obj" => byName = byRef /\ Resolve(cache, [k |-> "obj", id |-> byName.v])[1] = byName)
OnlySubclasses == \A cache \in SUBSET {EPs[j].name : j \in DOMAIN EPs} : \A i \in DOMAIN EPs :
                    LET c == Create(cache, [k |-> "plain", s |-> EPs[i].name])[1] IN c.r = "inst" => c.v \in SubOfBase
=============================================================================
