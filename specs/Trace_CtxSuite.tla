---------------------------- MODULE Trace_CtxSuite ----------------------------
(* Executions recorded from the real code (the repository's own test suite and the harness' scenario programs, run with the
   ASPHALT_VERIF_HOOKS=trace hook) checked against Ctx.tla: every recorded call of a context operation is the corresponding
   Ctx action with the recorded arguments; the outcome the specification gives is compared with the recorded outcome, the
   resource_added events the call dispatched with the specification's, and the tables and the state of EVERY context after the
   call with the specification's state (values and factories are matched through the bindings made when they first appear).

   Events (after the harness renamed contexts to 1.., types to "T<k>", names to "N<k>", object ids to small integers):
     new(c, p)  enter(c, r)  exit.begin(c)  exit.end(c, r)
     add(c, ts, n, desc, flaw, vid, r, evs)        r: ok | RuntimeError | Invalid | ResourceConflict | other
     addfac(c, ts, n, desc, flaw, async, fid, r, evs)
     get(c, t, n, api, opt, r, vid, evs)           r: val | None | ResourceNotFound | AsyncResourceError | RuntimeError | other
     getall(c, t, found)   outside(reason)
     cadd(ts, ints, n, isdefault, starting, defname, desc, fac, cb, r, delegated, in = [n, desc, r, fac, cb])   (ts / ints: the types of a
                                                   factory as the component declared them - explicitly or by return annotation - and as the context registered them)   a ComponentContext's add call and the
                                                   context-level call it delegated to (recorded within it)
     csvc(func, name, action, r, delegated, in = [func, name, action, r])   the same for ComponentContext.start_service_task
     cget(c, t, n, api, opt, r, vid)               what a lookup through a ComponentContext (a view of context c) finally gave its caller
   new, enter, exit.end, add, addfac, get, getall also carry task and cur (the context current for the task when the call returned;
   0 none, -1 not known); all but exit.begin with post = << [c, st, res = <<t, n, vid, gen>>.., fac = <<t, n, fid>>..] .. >> for every context.
   "other" = the call ended in a way the specification does not describe (a factory that raised, a cancellation): nothing
   is concluded from the result, the state must be unchanged.  The verdict names the property (or properties) of the first failing clause. *)
EXTENDS Ctx, TLCExt, Json, IOUtils, FiniteSetsExt
Traces == JsonDeserialize(IOEnv.TRACE_FILE)
SuiteTypes == {"T0", "T1", "T2", "T3", "T4", "T5", "T6", "T7", "T8", "T9", "T10", "T11", "T12"}
SuiteNames == {"N1", "N2", "N3", "N4", "N5", "N6", "N7", "N8", "N9", "N10", "N11", "N12", "N13", "N14", "N15", "N16"}
Huge == 1000000
VARIABLES tid, l, ok, why, at, live, vbind, fbind, hits, stack
tvars == <<tid, l, ok, why, at, live, vbind, fbind, hits, stack>>

E == Traces[tid].events[l]
Real(b, id) == IF \E p \in b : p[1] = id THEN (CHOOSE p \in b : p[1] = id)[2] ELSE -1
DescOf(b, id) == IF \E p \in b : p[1] = id THEN (CHOOSE p \in b : p[1] = id)[3] ELSE "?"
Present(T, c) == {x \in Types \X Names : ~IsNone(T[c][Key(x[1], x[2])])}
ResRows(R, c, vb) == {<<x[1], x[2], Real(vb, R[c][Key(x[1], x[2])].id), R[c][Key(x[1], x[2])].gen>> : x \in Present(R, c)}
FacRows(F, c, fb) == {<<x[1], x[2], Real(fb, F[c][Key(x[1], x[2])].id)>> : x \in Present(F, c)}
\* "" when the recorded state of every context equals the specification's; otherwise which kind of difference
PostWhy(post, S, R, F, vb, fb, acted) ==
  LET bad == {i \in DOMAIN post : \/ post[i].st # S[post[i].c]
                                   \/ ToSet(post[i].res) # ResRows(R, post[i].c, vb)
                                   \/ ToSet(post[i].fac) # FacRows(F, post[i].c, fb)} IN
  IF bad = {} THEN ""
  ELSE LET i == Min(bad) IN
       IF post[i].st # S[post[i].c] THEN "state" ELSE IF post[i].c = acted THEN "own" ELSE "other"
\* the events a call dispatched against the specification's
EvsOk(evs, exp, c, desc) ==
  /\ Len(evs) = Len(exp)
  /\ \A i \in DOMAIN exp : i \in DOMAIN evs =>
        /\ evs[i].src = c /\ exp[i].c = c
        /\ ToSet(evs[i].ts) = exp[i].types /\ evs[i].n = exp[i].name /\ evs[i].fac = exp[i].fac /\ evs[i].desc = desc

(* Current context (Cur.tla at the grain of recorded calls): per task, the stack of contexts it has entered and not left. A task
   seen for the first time starts with what it reports (inherited from its spawner); -2 = not known. Every recorded call reports
   the context current for its task when it returns: it has to be the top of that task's stack.                            *)
Unknown == -2
Before(t, cur, entering) == IF t \in DOMAIN stack THEN stack[t] ELSE IF entering THEN <<Unknown>> ELSE <<cur>>
Top(s) == IF s = <<>> THEN Unknown ELSE s[Len(s)]
StackAfter ==
  LET t == E.task IN
  \* (cc: the acted-on context, a component context counting as the context it is a view of - as cur does)
  IF E.ev = "enter" /\ E.r = "ok" THEN Append(Before(t, E.cur, TRUE), E.cc)
  ELSE IF E.ev = "exit.end" THEN (LET b == Before(t, E.cur, TRUE) IN IF Top(b) = E.cc THEN SubSeq(b, 1, Len(b) - 1) ELSE <<Unknown>>)
  ELSE Before(t, E.cur, FALSE)
HasWhere == E.ev \in {"new", "enter", "exit.end", "add", "addfac", "get", "getall"}
CurWhy == IF HasWhere /\ E.cur # -1 /\ Top(StackAfter) # Unknown /\ E.cur # Top(StackAfter)
          THEN "C12,C02,C04:current-context-of-the-task-is-not-the-innermost-context-it-entered-and-has-not-left" ELSE ""
Judge(w, hit) == LET w2 == IF w = "" THEN CurWhy ELSE w IN
                 /\ ok' = (w2 = "") /\ why' = w2 /\ at' = (IF w2 = "" THEN at ELSE l) /\ live' = live /\ hits' = hits \cup {hit}
                 /\ stack' = IF HasWhere THEN [x \in DOMAIN stack \cup {E.task} |-> IF x = E.task THEN StackAfter ELSE stack[x]] ELSE stack
Outside(reason) == /\ live' = FALSE /\ why' = reason /\ at' = l /\ UNCHANGED <<core, obs, ok, vbind, fbind, hits, stack>>
PostVerdict(w, c, own, other) ==
  IF w = "" THEN "" ELSE IF w = "state" THEN "C13:state-of-a-context-differs" ELSE IF w = "own" THEN own ELSE other

StepNew ==
  LET c == E.c  p == E.p IN
  IF ~(cstate[c] = "unborn" /\ (p = 0 \/ Born(p))) THEN Outside("create-precondition")
  ELSE /\ CreateAt(c, p) /\ UNCHANGED <<vbind, fbind>>
       /\ Judge(PostVerdict(PostWhy(E.post, cstate', res', fac', vbind, fbind, c), c,
                            "C02:new-context-is-not-the-snapshot-of-its-parent", "C02:creating-a-context-changed-another-context"), "new")
StepEnter ==
  LET c == E.c IN
  IF E.r = "other" THEN /\ UNCHANGED <<core, obs, vbind, fbind>>
                        /\ Judge(PostVerdict(PostWhy(E.post, cstate, res, fac, vbind, fbind, c), c, "C13:failed-entry-changed-the-context", "C02:entering-changed-another-context"), "enter-failed")
  ELSE /\ Enter(c) /\ UNCHANGED <<vbind, fbind>>
       /\ Judge(IF obs'.r # E.r THEN "C13:enter-result"
                ELSE PostVerdict(PostWhy(E.post, cstate', res', fac', vbind, fbind, c), c, "C02:entering-changed-what-the-context-sees", "C02:entering-changed-another-context"),
                "enter-" \o obs'.r)
StepExitBegin ==
  IF cstate[E.c] # "open" THEN Outside("exit-of-a-context-that-is-not-open")
  ELSE BeginClose(E.c, "return") /\ UNCHANGED <<vbind, fbind>> /\ Judge("", "exit.begin")
StepExitEnd ==
  IF cstate[E.c] # "closing" THEN Outside("end-of-an-exit-that-did-not-begin")
  ELSE /\ EndClose(E.c) /\ UNCHANGED <<vbind, fbind>>
       \* a context left while a context entered under it is still open: that is an error to be reported, not ignored
       /\ Judge(IF OpenKids(E.c) # {} /\ E.r = "ok" THEN "C13:leaving-a-context-with-an-open-child-context-was-not-reported" ELSE PostVerdict(PostWhy(E.post, cstate', res', fac', vbind, fbind, E.c), E.c, "C02:leaving-changed-what-the-context-sees", "C02:leaving-changed-another-context"), "exit.end")

StateClash(a, b) == a # b /\ (a = "RuntimeError" \/ b = "RuntimeError")
StepAdd ==
  LET c == E.c  ts == ToSet(E.ts) IN
  IF E.r = "other" THEN /\ UNCHANGED <<core, obs, vbind, fbind>>
                        /\ Judge(PostVerdict(PostWhy(E.post, cstate, res, fac, vbind, fbind, c), c, "C03:failed-add-changed-the-context", "C02:add_resource-changed-another-context"), "add-other")
  ELSE /\ AddRes(c, ts, E.n, "none", E.flaw)
       /\ vbind' = IF obs'.r = "ok" THEN vbind \cup {<<obs'.v, E.vid>>} ELSE vbind
       /\ fbind' = fbind
       /\ Judge(IF E.r # "ok" /\ PostWhy(E.post, cstate, res, fac, vbind, fbind, c) \in {"own", "other"} THEN "C03:failed-add-changed-the-context"
                ELSE IF StateClash(obs'.r, E.r) THEN "C13:add_resource-state-check"
                ELSE IF obs'.r # E.r THEN "C03:add_resource-result"
                ELSE IF ~EvsOk(E.evs, obs'.ev, c, E.desc) THEN "C18:add_resource-events"
                ELSE PostVerdict(PostWhy(E.post, cstate', res', fac', vbind', fbind, c), c,
                                 IF obs'.r = "ok" THEN "C03:add_resource-registration" ELSE "C03:failed-add-changed-the-context",
                                 "C02:add_resource-changed-another-context"),
                "add-" \o obs'.r)
StepAddFac ==
  LET c == E.c  ts == ToSet(E.ts) IN
  IF E.r = "other" THEN /\ UNCHANGED <<core, obs, vbind, fbind>>
                        /\ Judge(PostVerdict(PostWhy(E.post, cstate, res, fac, vbind, fbind, c), c, "C03:failed-add-changed-the-context", "C02:add_resource_factory-changed-another-context"), "addfac-other")
  ELSE /\ AddFac(c, ts, E.n, E.async, E.flaw)
       /\ fbind' = IF obs'.r = "ok" THEN fbind \cup {<< <<"f", c, ts, E.n, E.async>>, E.fid, E.desc >>} ELSE fbind
       /\ vbind' = vbind
       /\ Judge(IF E.r # "ok" /\ PostWhy(E.post, cstate, res, fac, vbind, fbind, c) \in {"own", "other"} THEN "C03:failed-add-changed-the-context"
                ELSE IF StateClash(obs'.r, E.r) THEN "C13:add_resource_factory-state-check"
                ELSE IF obs'.r # E.r THEN "C03:add_resource_factory-result"
                ELSE IF ~EvsOk(E.evs, obs'.ev, c, E.desc) THEN "C18:add_resource_factory-events"
                ELSE PostVerdict(PostWhy(E.post, cstate', res', fac', vbind, fbind', c), c,
                                 IF obs'.r = "ok" THEN "C03:add_resource_factory-registration" ELSE "C03:failed-add-changed-the-context",
                                 "C02:add_resource_factory-changed-another-context"),
                "addfac-" \o obs'.r)
StepGet ==
  LET c == E.c
      o == GetO(c, E.t, E.n, E.api, E.opt)
      exp == IF o.r \in {"val", "gen"} THEN "val" ELSE o.r
      generated == o.r = "gen" \/ (o.r = "val" /\ res[c][Key(E.t, E.n)].gen)
      P == IF generated \/ o.r = "AsyncResourceError" \/ E.r = "AsyncResourceError" THEN "C04" ELSE "C02" IN
  /\ obs' = o
  /\ fbind' = fbind
  /\ IF E.r = "other"
     THEN /\ UNCHANGED <<core, vbind>>
          /\ Judge(PostVerdict(PostWhy(E.post, cstate, res, fac, vbind, fbind, c), c, "C04:failed-lookup-changed-the-context", "C02:lookup-changed-another-context"), "get-other")
     ELSE /\ GetEffect(c, E.t, E.n)
          /\ vbind' = IF o.r = "gen" /\ E.r = "val" THEN vbind \cup {<<o.v, E.vid>>} ELSE vbind
          /\ Judge(IF StateClash(exp, E.r) THEN "C13:lookup-state-check"
                   ELSE IF exp # E.r THEN P \o ":lookup-result"
                   ELSE IF o.r = "val" /\ E.vid # Real(vbind, o.v) THEN P \o ":lookup-returned-another-object"
                   ELSE IF ~EvsOk(E.evs, o.ev, c, IF o.r = "gen" THEN DescOf(fbind, o.fid) ELSE "") THEN "C18:lookup-events"
                   ELSE PostVerdict(PostWhy(E.post, cstate', res', fac', vbind', fbind, c), c,
                                    IF o.r = "gen" THEN "C04:generated-resource-registration" ELSE "C03:lookup-changed-the-context",
                                    IF o.r = "gen" THEN "C04:generation-changed-another-context" ELSE "C02:lookup-changed-another-context"),
                   "get-" \o o.r)
StepGetAll ==
  LET c == E.c
      exp == {<<n, Real(vbind, res[c][Key(E.t, n)].id)>> : n \in {m \in Names : ~IsNone(res[c][Key(E.t, m)])}} IN
  /\ UNCHANGED <<core, obs, vbind, fbind>>
  /\ Judge(IF E.r # "ok" THEN "C02:get_resources-raised"
           ELSE IF ToSet(E.found) # exp THEN "C02:get_resources-disagrees-with-the-tables"
           ELSE PostVerdict(PostWhy(E.post, cstate, res, fac, vbind, fbind, c), c, "C03:lookup-changed-the-context", "C02:lookup-changed-another-context"), "getall")

\* ComponentContext.add_resource / add_resource_factory delegate to the context the component tree was started in: same arguments,
\* except that the name "default" becomes the name given by the component's alias (kind/name) while the component's start() runs
StepCAdd ==
  /\ UNCHANGED <<core, obs, vbind, fbind>>
  /\ Judge(IF E.r = "other" THEN ""
           ELSE IF ~E.delegated THEN (IF E.r = "ok" THEN "C14:component-context-did-not-delegate-the-registration" ELSE "")
           ELSE IF E.in.fac # E.fac THEN "C14:component-context-delegated-to-the-wrong-operation"
           ELSE IF E.in.n # (IF E.isdefault /\ E.starting THEN E.defname ELSE E.n) THEN "C14:resource-name-given-to-the-context-is-not-what-the-alias-rule-says"
           ELSE IF E.fac /\ ToSet(E.ints) # ToSet(E.ts) THEN "C02,C06:factory-registered-under-other-types-than-the-component-declared"
           ELSE IF E.in.desc # E.desc THEN "C18:description-lost-between-the-component-and-the-context"
           ELSE IF E.in.cb # E.cb THEN "C01:teardown-callback-lost-between-the-component-and-the-context"
           ELSE IF E.in.r # E.r THEN "C03,C18:outcome-of-the-delegated-registration-not-passed-on"
           ELSE "", "cadd")
\* A lookup through a ComponentContext gives what the context it is a view of gives (it may wait for the resource during start-up, and
\* be cancelled while waiting: "other"), and it refuses like that context refuses when the context cannot be used
StepCGet ==
  LET o == GetO(E.c, E.t, E.n, E.api, E.opt) IN
  /\ UNCHANGED <<core, obs, vbind, fbind>>
  /\ Judge(IF E.r = "other" THEN (IF o.r = "RuntimeError" THEN "C13:component-context-lookup-on-an-unusable-context-did-not-raise" ELSE "")
           ELSE IF StateClash(IF o.r \in {"val", "gen"} THEN "val" ELSE o.r, E.r) THEN "C13:component-context-lookup-state-check"
           ELSE IF E.r = "val" THEN (IF o.r # "val" \/ E.vid # Real(vbind, o.v) THEN "C02,C04:component-context-lookup-differs-from-the-lookup-in-its-context" ELSE "")
           ELSE IF E.r = "None" THEN (IF o.r # "None" THEN "C02,C04:component-context-lookup-differs-from-the-lookup-in-its-context" ELSE "")
           ELSE "", "cget")
\* ComponentContext.start_service_task delegates with the arguments it was given (function, name, teardown action)
StepCSvc ==
  /\ UNCHANGED <<core, obs, vbind, fbind>>
  /\ Judge(IF ~E.delegated THEN (IF E.r = "ok" THEN "C08:component-context-did-not-delegate-the-service-task" ELSE "")
           ELSE IF E.in.func # E.func \/ E.in.name # E.name THEN "C08:another-service-task-started-than-the-component-asked-for"
           ELSE IF E.in.action # E.action THEN "C08:teardown-action-changed-between-the-component-and-the-context"
           ELSE IF E.in.r # E.r THEN "C08:outcome-of-the-delegated-start-not-passed-on"
           ELSE "", "csvc")
TInit == /\ tid \in 1..Len(Traces) /\ l = 1 /\ ok = TRUE /\ why = "" /\ at = 0 /\ live = TRUE /\ vbind = {} /\ fbind = {} /\ hits = {} /\ stack = <<>>
         /\ cstate = [c \in Ctxs |-> "unborn"] /\ parent = [c \in Ctxs |-> 0]
        /\ res = [c \in Ctxs |-> [k \in Keys |-> NoneR]] /\ fac = [c \in Ctxs |-> [k \in Keys |-> NoneR]]
        /\ td = [c \in Ctxs |-> <<>>] /\ ending = [c \in Ctxs |-> ""] /\ regs = 0 /\ obs = [a |-> "init"]
TNext ==
  /\ l <= Len(Traces[tid].events) /\ l' = l + 1 /\ UNCHANGED tid
  /\ IF ~ok \/ ~live THEN UNCHANGED <<core, obs, ok, why, at, live, vbind, fbind, hits, stack>>
     ELSE CASE E.ev = "new" -> StepNew
            [] E.ev = "enter" -> StepEnter
            [] E.ev = "exit.begin" -> StepExitBegin
            [] E.ev = "exit.end" -> StepExitEnd
            [] E.ev = "add" -> StepAdd
            [] E.ev = "addfac" -> StepAddFac
            [] E.ev = "get" -> StepGet
            [] E.ev = "getall" -> StepGetAll
            [] E.ev = "cadd" -> StepCAdd
            [] E.ev = "csvc" -> StepCSvc
            [] E.ev = "cget" -> StepCGet
            [] OTHER -> Outside(E.reason)
Report == (l = Len(Traces[tid].events) + 1) =>
            PrintT(ToJson([end |-> Traces[tid].id, ok |-> ok, step |-> at, why |-> why, live |-> live, hits |-> SetToSeq(hits)]))
=============================================================================
