SPECIFICATION Spec
CONSTANTS
  MaxCbs = 2
  Kinds = {"ok", "exc"}
  Routes = {"direct", "ctxtd"}
PROPERTY Terminates
CONSTANT Durings = {TRUE, FALSE}
CHECK_DEADLOCK FALSE
