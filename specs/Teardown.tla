------------------------------ MODULE Teardown ------------------------------
(* Context teardown (Context.__aexit__ / _run_teardown_callbacks): the pop-until-empty loop, one callback at a time, split at
   the await so that registration during teardown and cancellation while an async callback is suspended are separate steps.
   The program (callbacks, how the block ends, where cancellation strikes) is built by a generation stage and then frozen.
   Every step feeds the events it produces to the C01 monitor (P_C01), so TLC checks that the design satisfies C01.

   callback = [kind: "ok" | "exc" | "base" | "reraise",  async, pass (pass_exception), route: "direct" | "resource" | "resource2" | "ctxtd",
               during: registers one more (sync, ok, pass) callback while it runs]                                           *)
EXTENDS Naturals, Sequences, FiniteSets, TLC, SequencesExt
CONSTANTS MaxCbs, Kinds, Routes, Durings
M == INSTANCE P_C01
VARIABLES prog, stage, stack, running, cancelled, raised, anyCancel, nextId, outcome, mon
vars == <<prog, stage, stack, running, cancelled, raised, anyCancel, nextId, outcome, mon>>
Cb(kind, as, pass, route, during) == [kind |-> kind, async |-> as, pass |-> pass, route |-> route, during |-> during]
\* kind "reraise": a pass_exception callback that raises the very exception object it was handed (nothing when handed None);
\* one representative shape: sync, registered directly
Valid(c) == /\ (c.route \in {"resource", "resource2"} => ~c.pass)
            /\ (c.route = "ctxtd" => c.async /\ c.pass)
            /\ (c.kind = "reraise" => c.pass /\ ~c.async /\ c.route = "direct" /\ ~c.during)
\* bogus: inside the block an add_resource(..., teardown_callback=spy) is rejected with ResourceConflict; nothing is registered by it
Init == /\ prog = [cbs |-> <<>>, ending |-> "return", root |-> TRUE, ambient |-> FALSE, cancelDuring |-> 0, bogus |-> FALSE]
        /\ stage = "gen" /\ stack = <<>> /\ running = 0 /\ cancelled = FALSE /\ raised = {} /\ anyCancel = FALSE
        /\ nextId = 1 /\ outcome = "" /\ mon = M!MonInit
AddCb == /\ stage = "gen" /\ Len(prog.cbs) < MaxCbs
         /\ \E k \in Kinds, as \in BOOLEAN, p \in BOOLEAN, r \in Routes, d \in Durings :
              /\ Valid(Cb(k, as, p, r, d))
              /\ prog' = [prog EXCEPT !.cbs = Append(@, Cb(k, as, p, r, d))]
         /\ UNCHANGED <<stage, stack, running, cancelled, raised, anyCancel, nextId, outcome, mon>>
\* the block is entered, the callbacks are registered in order, the block ends
Start == /\ stage = "gen"
         /\ \E e \in {"return", "exc", "base", "cancel"}, root \in BOOLEAN, amb \in BOOLEAN, cd \in 0..Len(prog.cbs), bg \in BOOLEAN :
              /\ (cd # 0 => (prog.cbs[cd].async /\ e # "cancel"))
              /\ (amb => e = "return")
              /\ (bg => e \in {"return", "exc"} /\ root /\ ~amb /\ cd = 0)
              /\ prog' = [prog EXCEPT !.ending = e, !.root = root, !.ambient = amb, !.cancelDuring = cd, !.bogus = bg]
         /\ stage' = "run"
         /\ stack' = [i \in 1..Len(prog.cbs) |-> i]
         /\ nextId' = Len(prog.cbs) + 1
         /\ cancelled' = FALSE
         /\ LET regs == [i \in 1..Len(prog.cbs) |-> [ev |-> "reg", cb |-> i, pass |-> prog.cbs[i].pass]]
                RECURSIVE F(_, _)
                F(m, i) == IF i > Len(regs) THEN m ELSE F(M!MonNext(m, regs[i]), i + 1)
            IN mon' = F(mon, 1)
         /\ UNCHANGED <<running, raised, anyCancel, outcome>>
BlockExc == CASE prog.ending = "return" -> "none" [] prog.ending = "cancel" -> "cancel" [] OTHER -> "blk"
BeginExit == /\ stage = "run" /\ stage' = "closing"
             /\ cancelled' = (prog.ending = "cancel")
             /\ mon' = M!MonNext(mon, [ev |-> "exit.begin", how |-> prog.ending, exc |-> BlockExc])
             /\ UNCHANGED <<prog, stack, running, raised, anyCancel, nextId, outcome>>
\* callbacks registered during teardown are plain sync callbacks with pass_exception
CbOf(i) == IF i <= Len(prog.cbs) THEN prog.cbs[i] ELSE Cb("ok", FALSE, TRUE, "direct", FALSE)
\* pop the most recently registered callback and invoke it
Pop == /\ stage = "closing" /\ running = 0 /\ stack # <<>>
       /\ LET i == stack[Len(stack)] IN
          /\ running' = i /\ stack' = SubSeq(stack, 1, Len(stack) - 1)
          /\ mon' = M!MonNext(mon, [ev |-> "cb.begin", cb |-> i, hasarg |-> CbOf(i).pass, arg |-> IF CbOf(i).pass THEN BlockExc ELSE "none"])
       /\ UNCHANGED <<prog, stage, cancelled, raised, anyCancel, nextId, outcome>>
\* cancellation arrives while the chosen async callback is suspended
CancelNow == /\ stage = "closing" /\ running # 0 /\ running = prog.cancelDuring /\ ~cancelled
             /\ cancelled' = TRUE
             /\ UNCHANGED <<prog, stage, stack, running, raised, anyCancel, nextId, outcome, mon>>
\* the running callback (and the awaitable it returned) completes; an async callback under cancellation is cancelled at its
\* checkpoint, before it registers or raises anything of its own
Finish == /\ stage = "closing" /\ running # 0 /\ (running = prog.cancelDuring => cancelled)
          /\ LET i == running
                 c == CbOf(i)
                 cut == c.async /\ cancelled
                 regNew == c.during /\ ~cut
                 exc == IF cut THEN "cancel" ELSE IF c.kind = "ok" THEN "none"
                        ELSE IF c.kind = "reraise" THEN (IF prog.ending \in {"exc", "base"} THEN "blk" ELSE "none")
                        ELSE "cb" \o ToString(i)
                 m1 == IF regNew THEN M!MonNext(mon, [ev |-> "reg", cb |-> nextId, pass |-> TRUE]) ELSE mon IN
             /\ stack' = IF regNew THEN Append(stack, nextId) ELSE stack
             /\ nextId' = IF regNew THEN nextId + 1 ELSE nextId
             /\ raised' = IF ~cut /\ exc # "none" THEN raised \cup {exc} ELSE raised
             /\ anyCancel' = (anyCancel \/ cut)
             /\ mon' = M!MonNext(m1, [ev |-> "cb.end", cb |-> i, raised |-> (exc # "none"), exc |-> exc, cancel |-> cut])
          /\ running' = 0
          /\ UNCHANGED <<prog, stage, cancelled, outcome>>
\* all callbacks have run: the callback exceptions leave together in one group, else the block's own outcome
EndExit == /\ stage = "closing" /\ running = 0 /\ stack = <<>>
           /\ stage' = "closed"
           /\ outcome' = IF raised # {} THEN "group" ELSE IF anyCancel \/ prog.ending = "cancel" THEN "cancel"
                         ELSE IF prog.ending = "return" THEN "normal" ELSE prog.ending
           /\ LET e == IF raised # {} THEN [ev |-> "exit.end", kind |-> "group", groups |-> <<[members |-> SetToSeq(raised), othersAllCancel |-> TRUE]>>, exc |-> "none", plainexc |-> FALSE]
                       ELSE IF anyCancel \/ prog.ending = "cancel" THEN [ev |-> "exit.end", kind |-> "cancel", groups |-> <<>>, exc |-> "cancel", plainexc |-> FALSE]
                       ELSE IF prog.ending = "return" THEN [ev |-> "exit.end", kind |-> "normal", groups |-> <<>>, exc |-> "none", plainexc |-> FALSE]
                       ELSE [ev |-> "exit.end", kind |-> "exc", groups |-> <<>>, exc |-> "blk", plainexc |-> (prog.ending = "exc")]
              IN mon' = M!MonNext(M!MonNext(mon, e), [ev |-> "closed", v |-> TRUE])
           /\ UNCHANGED <<prog, stack, running, cancelled, raised, anyCancel, nextId>>
Next == AddCb \/ Start \/ BeginExit \/ Pop \/ CancelNow \/ Finish \/ EndExit
Spec == Init /\ [][Next]_vars /\ WF_vars(BeginExit \/ Pop \/ CancelNow \/ Finish \/ EndExit)
\* ---- properties ----
MonOk == mon.ok
Terminal == stage = "closed"
\* every registered callback (also those registered during teardown) has run exactly once when the block is left
AllRan == Terminal => mon.ran = 1..(nextId - 1)
\* teardown always terminates
Terminates == (stage = "run") ~> Terminal
=============================================================================
