------------------------------- MODULE MC_Ctx -------------------------------
(* Model-checking wrapper for Ctx: hides the observation variable from the state (VIEW) and prints every transition of the
   bounded graph exactly once as JSON (from-state, observation, to-state) for replay against the real Context class.   *)
EXTENDS Ctx, Json
View == core
\* compact state encoding: every table entry is represented by its id (0 = empty); types, name and gen follow from the id
Ids(tab) == [c \in Ctxs |-> [k \in Keys |-> IF IsNone(tab[c][k]) THEN 0 ELSE tab[c][k].id]]
Enc(cs, pa, re, fa, t, en, rg) == <<cs, pa, Ids(re), Ids(fa), t, en, rg>>
\* With one worker the successors of a state are generated consecutively: the source state is printed once (an "s" line,
\* together with every outcome that changes nothing in that state), followed by one line per state-changing transition.
\* Tick gives every state an outgoing transition, so that every state gets its "s" line.
Tick == UNCHANGED core /\ obs' = [a |-> "tick"]
NextP == /\ (Next \/ Tick)
         /\ IF TLCGet(1) = core THEN TRUE
            ELSE TLCSet(1, core) /\ PrintT(ToJson([s |-> Enc(cstate, parent, res, fac, td, ending, regs), loops |-> LoopObs]))
         /\ IF obs'.a = "tick" THEN TRUE
            ELSE PrintT(ToJson([obs |-> obs', to |-> Enc(cstate', parent', res', fac', td', ending', regs')]))
InitP == Init /\ TLCSet(1, <<>>)
\* model checking of the properties uses the complete step relation
NextMC == NextAll
=============================================================================
