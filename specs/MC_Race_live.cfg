SPECIFICATION Spec
CONSTANTS
  N = 2
  MaxFails = 1
PROPERTY AllFinish
CHECK_DEADLOCK FALSE
