------------------------------ MODULE Startup ------------------------------
(* Start-up of a component tree (src/asphalt/core/_component.py: start_component, _init_component, _start_component,
   ComponentContext.get_resource, _watch_component_tree_startup).

   The program - the tree, which components implement prepare()/start(), the scripted steps of those methods, an optional
   failing (component, phase) and an optional timeout - is built by a generation stage and then frozen. User code (the
   scripted steps) is controllable: every step waits at a gate that the environment opens (Step). Everything asphalt does
   in between runs to quiescence within the same step (Settle: a child task begins when its parent reaches the children
   phase, a phase ends, a component whose children are all done calls start(), start_component returns). The failing step,
   and the clock passing the timeout (Timeout), abort the start-up. Every step feeds its events to the monitors of C05, C06
   and C07, followed by a quiescence event; TLC checks that the design satisfies all three.

   op = [k, ts, n, x]:  k = "noop"                                        a step without effect
                        k = "add",  ts = types, n = name, x = "res" | "res2" | "fac" | "afac"   publish a resource (res2: right
                                    after an unrelated publication, no checkpoint in between) / a (async) factory
                        k = "get",  ts = <<type>>, n = name, x = "wait" | "giveup" (waits, but may give up: GiveUp) | "opt" | "nowait"
                        k = "svc"                                         start a service task (stopped when the surrounding context is left)
   A resource added under the name "default" during start() appears under the component's default resource name (drn).        *)
EXTENDS Naturals, Sequences, FiniteSets, TLC, SequencesExt
CONSTANTS MaxComps, PrepOps, StartOps, MinLen, MaxLen, Faults, Timeouts, Drns
M5 == INSTANCE P_C05
M6 == INSTANCE P_C06
M7 == INSTANCE P_C07
Comps == 1..MaxComps
Noop == [k |-> "noop", ts |-> <<>>, n |-> "", x |-> ""]
ScriptsOver(S) == {<<>>} \cup UNION {[1..l -> S] : l \in MinLen..MaxLen}
VARIABLES prog, stage, rt, hist, m5, m6, m7
vars == <<prog, stage, rt, hist, m5, m6, m7>>
EmptyProg == [n |-> 0, par |-> <<>>, hp |-> <<>>, hs |-> <<>>, sp |-> <<>>, ss |-> <<>>, drn |-> <<>>, paths |-> <<>>,
              fail |-> [c |-> 0, phase |-> ""], timeout |-> FALSE, acyclic |-> TRUE]
NoW == [t |-> "", n |-> ""]
EmptyRt == [pc |-> [c \in Comps |-> "absent"], ip |-> [c \in Comps |-> 1], wait |-> [c \in Comps |-> NoW], pubs |-> <<>>,
            sc |-> "idle", regs |-> <<>>, clock |-> "before", evs |-> <<>>]
Init == prog = EmptyProg /\ stage = "gen" /\ rt = EmptyRt /\ hist = <<>> /\ m5 = M5!MonInit /\ m6 = M6!MonInit /\ m7 = M7!MonInit

(* ------------------------------------------------ generation stage ---------------------------------------------------- *)
PathOf(p, c, par, drn) == LET a == IF drn = "default" THEN "k" \o ToString(c) ELSE "k" \o ToString(c) \o "/" \o drn IN
                          IF par = 1 THEN a ELSE p.paths[par] \o "." \o a
AddComp == /\ stage = "gen" /\ prog.n < MaxComps
           /\ \E par \in 0..prog.n, hp \in BOOLEAN, hs \in BOOLEAN, sp \in ScriptsOver(PrepOps), ss \in ScriptsOver(StartOps), drn \in Drns :
                /\ (par = 0) = (prog.n = 0)
                /\ (~hp => sp = <<>>) /\ (~hs => ss = <<>>)
                /\ (hp => Len(sp) >= MinLen) /\ (hs => Len(ss) >= MinLen)
                /\ (prog.n = 0 => drn = "default")
                /\ LET c == prog.n + 1 IN
                   prog' = [prog EXCEPT !.n = c, !.par = Append(@, par), !.hp = Append(@, hp), !.hs = Append(@, hs), !.sp = Append(@, sp),
                                         !.ss = Append(@, ss), !.drn = Append(@, drn),
                                         !.paths = Append(@, IF c = 1 THEN "" ELSE PathOf(prog, c, par, drn))]
           /\ UNCHANGED <<stage, rt, hist, m5, m6, m7>>
Script(c, ph) == IF ph = "prep" THEN prog.sp[c] ELSE prog.ss[c]
\* effective name of an addition: the default name is remapped during start()
EffName(c, ph, n) == IF n = "default" /\ ph = "start" THEN prog.drn[c] ELSE n
AddKeys == UNION {UNION {{<<op.ts[i], EffName(c, "prep", op.n)>> : i \in DOMAIN op.ts} : op \in {prog.sp[c][j] : j \in DOMAIN prog.sp[c]} \cap {o \in PrepOps : o.k = "add"}} : c \in 1..prog.n}
\* no two additions may collide (a ResourceConflict is a different story): counted with multiplicity
AddList == LET RECURSIVE Col(_, _, _)
               Col(c, ph, j) == IF c > prog.n THEN <<>>
                                ELSE IF j > Len(Script(c, ph)) THEN (IF ph = "prep" THEN Col(c, "start", 1) ELSE Col(c + 1, "prep", 1))
                                ELSE LET op == Script(c, ph)[j] IN
                                     (IF op.k = "add" THEN [i \in DOMAIN op.ts |-> <<op.ts[i], EffName(c, ph, op.n)>>]
                                                            \o (IF op.x = "res2" THEN <<<<"Z", EffName(c, ph, op.n)>>>> ELSE <<>>) ELSE <<>>) \o Col(c, ph, j + 1)
           IN Col(1, "prep", 1)
NoCollision == \A i, j \in DOMAIN AddList : i # j => AddList[i] # AddList[j]

(* ------------------------------------------------ run-time steps (pure functions on rt) -------------------------------- *)
Emit(r, e) == [r EXCEPT !.evs = Append(@, e)]
Kids(c) == {d \in 1..prog.n : prog.par[d] = c}
InMethod(r, c) == r.pc[c] \in {"prep", "start"}
Phase(r, c) == r.pc[c]
RECURSIVE AncS(_)
AncS(c) == IF prog.par[c] = 0 THEN {} ELSE {prog.par[c]} \cup AncS(prog.par[c])
Begin(r, c) ==
  IF prog.hp[c] THEN Emit(Emit([r EXCEPT !.pc[c] = "prep", !.ip[c] = 1, !.regs = Append(@, <<c, "prepare">>)], [ev |-> "prepare.begin", c |-> c]),
                          [ev |-> "reg", id |-> <<c, "prepare">>])
  ELSE [r EXCEPT !.pc[c] = "kids"]
PhaseEnd(r, c) ==
  IF r.pc[c] = "prep" THEN Emit([r EXCEPT !.pc[c] = "kids"], [ev |-> "prepare.end", c |-> c])
  ELSE Emit([r EXCEPT !.pc[c] = "done"], [ev |-> "start.end", c |-> c])
KidsDone(r, c) ==
  IF prog.hs[c] THEN Emit(Emit([r EXCEPT !.pc[c] = "start", !.ip[c] = 1, !.regs = Append(@, <<c, "start">>)], [ev |-> "start.begin", c |-> c]),
                          [ev |-> "reg", id |-> <<c, "start">>])
  ELSE [r EXCEPT !.pc[c] = "done"]
CanBegin(r, c) == r.pc[c] = "idle" /\ (IF c = 1 THEN TRUE ELSE r.pc[prog.par[c]] = "kids")
CanEnd(r, c) == InMethod(r, c) /\ r.ip[c] > Len(Script(c, r.pc[c])) /\ r.wait[c] = NoW
CanKidsDone(r, c) == r.pc[c] = "kids" /\ \A d \in Kids(c) : r.pc[d] = "done"
Least(S) == CHOOSE x \in S : \A y \in S : x <= y
RECURSIVE Settle(_)
Settle(r) ==
  IF r.sc # "run" THEN r
  ELSE LET B == {c \in 1..prog.n : CanBegin(r, c)}
           E == {c \in 1..prog.n : CanEnd(r, c)}
           K == {c \in 1..prog.n : CanKidsDone(r, c)} IN
       IF B # {} THEN Settle(Begin(r, Least(B)))
       ELSE IF E # {} THEN Settle(PhaseEnd(r, Least(E)))
       ELSE IF K # {} THEN Settle(KidsDone(r, Least(K)))
       ELSE IF r.pc[1] = "done" THEN Emit([r EXCEPT !.sc = "ret"], [ev |-> "sc.return", ok |-> TRUE])
       ELSE r
Gates(r) == {c \in 1..prog.n : InMethod(r, c) /\ r.ip[c] <= Len(Script(c, r.pc[c])) /\ r.wait[c] = NoW}
Waiting(r) == {c \in 1..prog.n : r.wait[c] # NoW}
Quiet(r) == Emit(r, [ev |-> "q", gates |-> SetToSeq(Gates(r)), waiting |-> SetToSeq(Waiting(r))])
\* publications and lookups
MatchIdx(r, t, n) == {i \in DOMAIN r.pubs : r.pubs[i].n = n /\ t \in Range(r.pubs[i].ts)}
ValOf(r, t, n) == r.pubs[Least(MatchIdx(r, t, n))].v
\* wake every waiter whose key matches the new publication: second lookup, method continues
RECURSIVE WakeAll(_, _)
WakeAll(r, S) ==
  IF S = {} THEN r
  ELSE LET c == Least(S) w == r.wait[c] IN
       WakeAll(Emit([r EXCEPT !.wait[c] = NoW, !.ip[c] = @ + 1],
                    [ev |-> "get.end", c |-> c, t |-> w.t, n |-> w.n, r |-> "val", v |-> ValOf(r, w.t, w.n)]), S \ {c})
DoOp(r, c) ==
  LET ph == r.pc[c]
      op == Script(c, ph)[r.ip[c]]
      r0 == Emit(r, [ev |-> "step", c |-> c]) IN
  IF op.k = "noop" THEN [r0 EXCEPT !.ip[c] = @ + 1]
  \* a service task started by the component belongs to the surrounding context like any other registration: it is stopped,
  \* in its place in the reverse order, when that context is left
  ELSE IF op.k = "svc" THEN Emit([r0 EXCEPT !.ip[c] = @ + 1, !.regs = Append(@, <<c, "svc" \o ToString(r.ip[c])>>)], [ev |-> "reg", id |-> <<c, "svc" \o ToString(r.ip[c])>>])
  ELSE IF op.k = "add" THEN
       LET n == EffName(c, ph, op.n)
           kind == IF op.x \in {"res", "res2"} THEN "res" ELSE "fac"
           v == <<IF kind = "res" THEN "v" ELSE "prod", c, ph, r.ip[c]>>
           \* x = "res2": an unrelated resource (type Z, same name) is published immediately before, without a checkpoint in between
           dv == <<"decoy", c, ph, r.ip[c]>>
           r0a == IF op.x = "res2" THEN Emit([r0 EXCEPT !.pubs = Append(@, [ts |-> <<"Z">>, n |-> n, kind |-> "res", v |-> dv])],
                                             [ev |-> "publish", c |-> c, ts |-> <<"Z">>, n |-> n, kind |-> "res", v |-> dv]) ELSE r0
           r1 == Emit([r0a EXCEPT !.pubs = Append(@, [ts |-> op.ts, n |-> n, kind |-> kind, v |-> v]), !.ip[c] = @ + 1],
                      [ev |-> "publish", c |-> c, ts |-> op.ts, n |-> n, kind |-> kind, v |-> v]) IN
       WakeAll(r1, {d \in 1..prog.n : r1.wait[d] # NoW /\ r1.wait[d].n = n /\ r1.wait[d].t \in Range(op.ts)})
  ELSE \* get
       LET t == op.ts[1]
           r1 == Emit(r0, [ev |-> "get.begin", c |-> c, t |-> t, n |-> op.n, mode |-> op.x]) IN
       IF MatchIdx(r1, t, op.n) # {} THEN Emit([r1 EXCEPT !.ip[c] = @ + 1], [ev |-> "get.end", c |-> c, t |-> t, n |-> op.n, r |-> "val", v |-> ValOf(r1, t, op.n)])
       ELSE IF op.x = "opt" THEN Emit([r1 EXCEPT !.ip[c] = @ + 1], [ev |-> "get.end", c |-> c, t |-> t, n |-> op.n, r |-> "none", v |-> <<>>])
       ELSE IF op.x = "nowait" THEN Emit([r1 EXCEPT !.ip[c] = @ + 1], [ev |-> "get.end", c |-> c, t |-> t, n |-> op.n, r |-> "notfound", v |-> <<>>])
       ELSE [r1 EXCEPT !.wait[c] = [t |-> t, n |-> op.n]]
\* everything that is inside a method is cancelled when the start-up is aborted
RECURSIVE CancelAll(_, _)
CancelAll(r, S) == IF S = {} THEN r ELSE LET c == Least(S) IN CancelAll(Emit([r EXCEPT !.pc[c] = "cancelled", !.wait[c] = NoW], [ev |-> "cancelled", c |-> c]), S \ {c})
PhaseName(ph) == IF ph = "prep" THEN "preparing" ELSE "starting"
FailAt(r, c) ==
  LET ph == r.pc[c]
      r1 == Emit(Emit(r, [ev |-> "step", c |-> c]), [ev |-> "fail", c |-> c, phase |-> PhaseName(ph), exc |-> "boom"])
      r2 == CancelAll([r1 EXCEPT !.pc[c] = "failed"], {d \in 1..prog.n : d # c /\ InMethod(r1, d)}) IN
  Emit([r2 EXCEPT !.sc = "raised"], [ev |-> "sc.raise", cls |-> "ComponentStartError", phase |-> PhaseName(ph), path |-> prog.paths[c], ctype |-> c, cause |-> "boom"])

(* ------------------------------------------------ actions -------------------------------------------------------------- *)
Feed(r) == /\ m5' = LET RECURSIVE F(_, _) F(m, i) == IF i > Len(r.evs) THEN m ELSE F(M5!MonNext(prog', m, r.evs[i]), i + 1) IN F(m5, 1)
           /\ m6' = LET RECURSIVE F(_, _) F(m, i) == IF i > Len(r.evs) THEN m ELSE F(M6!MonNext(m, r.evs[i]), i + 1) IN F(m6, 1)
           /\ m7' = LET RECURSIVE F(_, _) F(m, i) == IF i > Len(r.evs) THEN m ELSE F(M7!MonNext(prog', m, r.evs[i]), i + 1) IN F(m7, 1)
\* start_component is called: the whole hierarchy is constructed first (a failing constructor aborts at once), then it starts
StartRun ==
  /\ stage = "gen" /\ prog.n >= 1 /\ NoCollision
  /\ \E f \in (IF Faults THEN 0..prog.n ELSE {0}), fph \in {"creating", "preparing", "starting"}, to \in (IF Timeouts THEN BOOLEAN ELSE {FALSE}) :
       /\ (f = 0 => fph = "creating")
       /\ (f # 0 /\ fph = "preparing" => prog.hp[f]) /\ (f # 0 /\ fph = "starting" => prog.hs[f])
       /\ prog' = [prog EXCEPT !.fail = [c |-> f, phase |-> IF f = 0 THEN "" ELSE fph], !.timeout = to]
       /\ LET r0 == [EmptyRt EXCEPT !.sc = "run", !.pc = [c \in Comps |-> IF c <= prog.n THEN "idle" ELSE "absent"]]
              ctors == [c \in 1..prog.n |-> [ev |-> "ctor", c |-> c]]
              r1 == [r0 EXCEPT !.evs = ctors] IN
          IF f # 0 /\ fph = "creating"
          THEN rt' = [Emit(Emit([r1 EXCEPT !.evs = <<>>], [ev |-> "fail", c |-> f, phase |-> "creating", exc |-> "boom"]),
                           [ev |-> "sc.raise", cls |-> "ComponentStartError", phase |-> "creating", path |-> prog.paths[f], ctype |-> f, cause |-> "boom"])
                      EXCEPT !.sc = "raised"]
          ELSE rt' = Quiet(Settle(r1))
  /\ stage' = "run" /\ hist' = <<>> /\ Feed(rt')
\* the environment opens the gate in front of c's next scripted step
Step(c) ==
  /\ stage = "run" /\ rt.sc = "run" /\ c \in Gates(rt) /\ UNCHANGED <<prog, stage>>
  /\ LET r0 == [rt EXCEPT !.evs = <<>>]
         failing == prog.fail.c = c /\ prog.fail.phase = PhaseName(rt.pc[c]) /\ rt.ip[c] = Len(Script(c, rt.pc[c])) IN
     rt' = IF failing THEN FailAt(r0, c) ELSE Quiet(Settle(DoOp(r0, c)))
  /\ hist' = Append(hist, c) /\ Feed(rt')
\* a component that wrapped its lookup in a timeout of its own gives up waiting (x = "giveup") and carries on
GiveUp(c) ==
  /\ stage = "run" /\ rt.sc = "run" /\ c \in 1..prog.n /\ rt.wait[c] # NoW /\ UNCHANGED <<prog, stage>>
  /\ InMethod(rt, c) /\ Script(c, rt.pc[c])[rt.ip[c]].x = "giveup"
  /\ LET w == rt.wait[c]
         r0 == Emit([rt EXCEPT !.evs = <<>>, !.wait[c] = NoW, !.ip[c] = @ + 1], [ev |-> "get.end", c |-> c, t |-> w.t, n |-> w.n, r |-> "gaveup", v |-> <<>>]) IN
     rt' = Quiet(Settle(r0))
  /\ hist' = Append(hist, 100 + c) /\ Feed(rt')
\* virtual time passes the timeout while the start-up is incomplete (a tie with completion is excluded: either outcome is legal)
Timeout ==
  /\ stage = "run" /\ rt.sc = "run" /\ prog.timeout /\ rt.clock = "before" /\ UNCHANGED <<prog, stage>>
  /\ LET r0 == Emit([rt EXCEPT !.evs = <<>>, !.clock = "passed"], [ev |-> "clock.passed"])
         r1 == CancelAll(r0, {d \in 1..prog.n : InMethod(r0, d)}) IN
     rt' = Emit([r1 EXCEPT !.sc = "raised"], [ev |-> "sc.raise", cls |-> "TimeoutError", phase |-> "", path |-> "", ctype |-> 0, cause |-> ""])
  /\ hist' = Append(hist, 0) /\ Feed(rt')
\* afterwards the surrounding context is left: everything registered is torn down in reverse order
Stuck == stage = "run" /\ rt.sc = "run" /\ Gates(rt) = {} /\ ~(prog.timeout /\ rt.clock = "before")
ExitCtx ==
  /\ stage = "run" /\ (rt.sc # "run" \/ Stuck)
  /\ LET want == IF rt.sc = "ret" THEN [i \in DOMAIN rt.pubs |-> rt.pubs[i].v] ELSE <<>>
         r0 == Emit(Emit([rt EXCEPT !.evs = <<>>], [ev |-> "visible", want |-> want, got |-> want]), [ev |-> "ctx.exit.begin"])
         RECURSIVE Td(_, _)
         Td(r, i) == IF i = 0 THEN r ELSE Td(Emit(r, [ev |-> "td", id |-> rt.regs[i]]), i - 1) IN
     rt' = Emit(Td(r0, Len(rt.regs)), [ev |-> "ctx.exit.end"])
  /\ prog' = [prog EXCEPT !.acyclic = ~Stuck]
  /\ stage' = "done" /\ Feed(rt') /\ UNCHANGED hist
Next == AddComp \/ StartRun \/ (\E c \in Comps : Step(c) \/ GiveUp(c)) \/ Timeout \/ ExitCtx
\* every run of the environment ends: under weak fairness of the environment's steps start_component finishes or is (legally) stuck,
\* and the surrounding context is left
Spec == Init /\ [][Next]_vars /\ WF_vars(Next)
(* ------------------------------------------------ properties ----------------------------------------------------------- *)
Mon5Ok == m5.ok
Mon6Ok == m6.ok
Mon7Ok == m7.ok
Terminal == stage = "done"
\* C05 read on the state: a component is inside start() only when every descendant is done; children exist only under a prepared parent
OrderOnState == stage = "run" => \A c \in 1..prog.n :
                   /\ (rt.pc[c] = "start" => \A d \in 1..prog.n : c \in AncS(d) => rt.pc[d] = "done")
                   /\ (rt.pc[c] \notin {"idle", "absent"} /\ c # 1 => rt.pc[prog.par[c]] \notin {"idle", "prep"})
\* C06: after a step nobody waits for something that has been published
NoLostWakeup == stage = "run" => \A c \in 1..prog.n : rt.wait[c] # NoW => MatchIdx(rt, rt.wait[c].t, rt.wait[c].n) = {}
\* every run of the environment ends
Finishes == (stage = "run") ~> (stage = "done")
=============================================================================
