--------------------------- MODULE Trace_Plugins ---------------------------
(* Batch verdicts for the Plugins family (C14, naming a type): every recorded sequence of resolve / create_object calls on a
   fresh PluginContainer of the real code is compared with the operators of Plugins.tla.
   A case is [id, prog = <<op or <<>>, op>>, obs = <<result or <<>>, result>>, names]; results as in Plugins.tla, an instance
   is reported with its class and whether it received the keyword arguments.                                          *)
EXTENDS Plugins, TLCExt, Json, IOUtils
Cases == JsonDeserialize(IOEnv.TRACE_FILE)
VARIABLES i
Init == i \in 1..Len(Cases)
Next == FALSE /\ UNCHANGED i
Apply(cache, o) == IF o.op = "resolve" THEN Resolve(cache, o.x) ELSE Create(cache, o.x)
\* shape-safe comparison of a specified and an observed result
Same(e, o) == /\ e.r = o.r
              /\ (e.r \in {"obj", "inst"} => e.v = o.v)
              /\ (e.r = "err" => e.e = o.e)
              /\ (e.r = "inst" => o.kwargs)
Why(c) ==
  LET first == IF c.prog[1] = <<>> THEN << [r |-> "none"], {} >> ELSE Apply({}, c.prog[1])
      second == Apply(first[2], c.prog[2]) IN
  IF c.names # EPNames THEN "names-of-the-entry-points-differ"
  ELSE IF c.prog[1] # <<>> /\ ~Same(first[1], c.obs[1]) THEN "type-reference-resolved-to-something-else:" \o c.prog[1].op
  ELSE IF ~Same(second[1], c.obs[2]) THEN "type-reference-resolved-to-something-else-after-an-earlier-call:" \o c.prog[2].op
  ELSE ""
Report == LET c == Cases[i] w == Why(c) IN
          PrintT(ToJson([end |-> c.id, ok |-> (w = ""), step |-> 1, why |-> w, hits |-> <<>>]))
=============================================================================
