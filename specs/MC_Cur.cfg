INIT Init
NEXT NextP
VIEW View
CONSTANTS
  NT = 3
  MaxDepth = 3
  MaxCtx = 3
INVARIANT MonOk
INVARIANT StackDiscipline
CHECK_DEADLOCK FALSE
