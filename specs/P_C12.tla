------------------------------- MODULE P_C12 -------------------------------
(* C12 as a monitor over the events of several tasks that enter and leave their own context stacks:
     enter(t, c, explicit, p, parent)   task t creates context c (explicit parent p, or 0: implicit) and enters it;
                                        parent = the observed Context.parent of the new context (0 = None)
     leave(t, how)                      task t leaves its innermost block (return / exc / cancel / tdraise)
     spawn(t, u)                        task t spawns task u (from inside its current block, if any)
     cur(t, obs)                        current_context() observed in task t (0 = NoCurrentContext), after every step for every task
     comp(t, prep, start, inner, given, restored)   task t ran start_component: observed parents of contexts created in prepare()
                                        and start(), of a context nested inside prepare(), of a context created with
                                        Context(current_context()) there (the component's view of the context handed over
                                        explicitly), and whether the current context was restored after leaving the nested block *)
EXTENDS Naturals, Sequences, FiniteSets
MonInit == [stack |-> <<>>, base |-> <<>>, last |-> [k |-> "none", t |-> 0, u |-> 0], ok |-> TRUE, why |-> "", hits |-> {}]
Fail(m, w) == [m EXCEPT !.ok = FALSE, !.why = w]
Hit(m, h) == [m EXCEPT !.hits = @ \cup {h}]
Get(f, k, d) == IF k \in DOMAIN f THEN f[k] ELSE d
Put(f, k, v) == [x \in DOMAIN f \cup {k} |-> IF x = k THEN v ELSE f[x]]
Cur(m, t) == LET s == Get(m.stack, t, <<>>) IN IF s # <<>> THEN s[Len(s)] ELSE Get(m.base, t, 0)
MonNext(m, e) ==
  IF ~m.ok THEN m ELSE
  CASE e.ev = "enter" ->
         LET want == IF e.explicit THEN e.p ELSE Cur(m, e.t)
             m1 == [m EXCEPT !.stack = Put(@, e.t, Append(Get(@, e.t, <<>>), e.c)), !.last = [k |-> "enter", t |-> e.t, u |-> 0]] IN
         IF e.parent # want THEN Fail(m1, "parent-of-new-context-is-not-the-context-current-at-its-creation")
         ELSE Hit(m1, IF e.explicit THEN "explicit-parent" ELSE "implicit-parent")
    [] e.ev = "leave" ->
         LET s == Get(m.stack, e.t, <<>>) IN
         IF s = <<>> THEN Fail(m, "malformed-trace-leave-without-enter")
         ELSE [Hit(m, "leave-" \o e.how) EXCEPT !.stack = Put(@, e.t, SubSeq(s, 1, Len(s) - 1)), !.last = [k |-> "leave-" \o e.how, t |-> e.t, u |-> 0]]
    [] e.ev = "spawn" -> [Hit(m, IF Cur(m, e.t) # 0 THEN "spawn-inside-block" ELSE "spawn-outside") EXCEPT !.base = Put(@, e.u, Cur(m, e.t)), !.last = [k |-> "spawn", t |-> e.t, u |-> e.u]]
    [] e.ev = "cur" ->
         IF e.obs = Cur(m, e.t) THEN m
         ELSE IF m.last.k = "spawn" /\ e.t = m.last.u THEN Fail(m, "spawned-task-did-not-inherit-the-current-context")
         ELSE IF e.t # m.last.t THEN Fail(m, "current-context-of-a-task-disturbed-by-another-task")
         ELSE IF m.last.k = "enter" THEN Fail(m, "entered-context-is-not-the-current-context")
         ELSE Fail(m, "current-context-not-restored-after-" \o m.last.k)
    [] e.ev = "comp" ->
         LET want == Cur(m, e.t) IN
         IF e.prep # want \/ e.start # want THEN Fail(m, "context-created-in-prepare-or-start-has-wrong-parent")
         ELSE IF e.inner # want THEN Fail(m, "context-nested-in-prepare-has-wrong-parent")
         ELSE IF e.given # want THEN Fail(m, "context-given-the-components-own-context-explicitly-has-wrong-parent")
         ELSE IF ~e.restored THEN Fail(m, "current-context-not-restored-inside-prepare")
         ELSE [Hit(m, "component") EXCEPT !.last = [k |-> "comp", t |-> e.t, u |-> 0]]
    [] OTHER -> m
=============================================================================
