INIT Init
NEXT Next
INVARIANT Report
CHECK_DEADLOCK FALSE
