------------------------------ MODULE MC_Merge ------------------------------
(* Exhaustive check of the algebraic content of C17 on the specification's Merge over every pair of dictionaries of
   depth <= 2 over two keys (one dotted) and a small leaf alphabet, plus None for either argument.                *)
EXTENDS Config
CONSTANT NLeaves
Keys == {"type", "b.c"}       \* "type" is what every component section of an asphalt configuration contains
AllLeaves == <<[t |-> "i", v |-> 1], [t |-> "n"], [t |-> "i", v |-> 2], [t |-> "l", v |-> <<[t |-> "i", v |-> 1]>>]>>
Leaves == {AllLeaves[i] : i \in 1..NLeaves}
Dicts(R) == UNION {[K -> R] : K \in SUBSET Keys}
D0 == Dicts(Leaves)
D1 == Dicts(Leaves \cup {D(d) : d \in D0})
Args == {D(d) : d \in D1} \cup {NoneV}
VARIABLES a, b, out, done
vars == <<a, b, out, done>>
Init == a \in Args /\ b \in Args /\ out = Empty /\ done = FALSE
Eval == ~done /\ done' = TRUE /\ out' = MergeCfg(a, b) /\ UNCHANGED <<a, b>>
Next == Eval
A == AsDict(a)
B == AsDict(b)
\* every key of either input is present, and no other
KeysUnion == done => DOMAIN out = DOMAIN A \cup DOMAIN B
\* dict/dict collisions hold the recursive merge, any other key present in overrides holds the overrides' value, else the original's
Pointwise == done => \A k \in DOMAIN out :
                 IF k \in DOMAIN A /\ k \in DOMAIN B /\ IsD(A[k]) /\ IsD(B[k]) THEN out[k] = D(Merge(A[k].v, B[k].v))
                 ELSE IF k \in DOMAIN B THEN out[k] = B[k] ELSE out[k] = A[k]
\* None behaves like an empty dictionary
NoneIsEmpty == done => (b = NoneV => out = A) /\ (a = NoneV => out = B)
RightIdentity == done => (B = Empty => out = A)
LeftIdentity == done => (A = Empty => out = B)
Idempotent == done => (a = b => out = A)
\* dotted keys are ordinary keys: the key "b.c" is never split into "b" and "c"
NoDotSplit == done => \A k \in DOMAIN out : k \in Keys
=============================================================================
