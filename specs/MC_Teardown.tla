---------------------------- MODULE MC_Teardown ----------------------------
EXTENDS Teardown, Json
Dump == Terminal => PrintT(ToJson([prog |-> prog, outcome |-> outcome, hits |-> mon.hits]))
=============================================================================
