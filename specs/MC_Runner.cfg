INIT Init
NEXT Next
CONSTANT MaxComps = 3
INVARIANT CodesInRange
INVARIANT StartupProblemsExitOne
INVARIANT InvalidResultsExitOne
INVARIANT CleanSignalAfterStartup
INVARIANT Dump
CHECK_DEADLOCK FALSE
