INIT Init
NEXT Next
CONSTANTS
  MaxComps = 4
  PrepOps <- Ops7
  StartOps <- Ops7
  MinLen = 1
  MaxLen = 1
  Faults = TRUE
  Timeouts = TRUE
  Drns = {"default"}
INVARIANT Mon7Ok
INVARIANT Dump
CHECK_DEADLOCK FALSE
