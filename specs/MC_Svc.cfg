INIT Init
NEXT Next
CONSTANTS
  MaxItems = 4
  MaxSvc = 2
INVARIANT MonOk
INVARIANT NoTaskLeft
INVARIANT Dump
CHECK_DEADLOCK FALSE
