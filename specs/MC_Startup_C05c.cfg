INIT Init
NEXT Next
CONSTANTS
  MaxComps = 4
  PrepOps <- Ops7
  StartOps <- Ops5c
  MinLen = 0
  MaxLen = 2
  Faults = FALSE
  Timeouts = FALSE
  Drns = {"default"}
CONSTRAINT Flat5c
INVARIANT Mon5Ok
INVARIANT Mon6Ok
INVARIANT OrderOnState
INVARIANT NoLostWakeup
INVARIANT Dump
CHECK_DEADLOCK FALSE
