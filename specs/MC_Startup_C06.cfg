INIT Init
NEXT Next
CONSTANTS
  MaxComps = 3
  PrepOps <- Ops6Prep
  StartOps <- Ops6
  MinLen = 0
  MaxLen = 1
  Faults = FALSE
  Timeouts = FALSE
  Drns = {"default", "m"}
INVARIANT Mon5Ok
INVARIANT Mon6Ok
INVARIANT NoLostWakeup
INVARIANT Dump
CHECK_DEADLOCK FALSE
