------------------------------- MODULE P_C09 -------------------------------
(* C09 as a monitor over one task factory:
     reg(id)                 a resource is added to the owning context (before or after the factory was started)
     factory.start           start_background_task_factory returned
     spawn(k)                a task is started through the factory (start_task / start_task_soon, from any context or task)
     bg.begin(k, vis, parentok)   the task function starts: resources visible in its context; whether its context's parent chain is
                             the factory's own context
     handle.cancel(k)        TaskHandle.cancel() is called for task k
     bg.saw.cancel(k)        task k observes cancellation
     bg.raise(k, hasHandler) an Exception escapes the function of task k
     handler(k, truthy)      the exception handler is called for task k's exception and returns a truthy / falsy value
     bg.end(k)               task k has ended (logged by the task itself)
     wait.returned(k)        a wait_finished() call for task k returned
     q(handles, waiters)     quiescent point: all_task_handles() (as task numbers) and the tasks still being waited for
     exit.begin / exit.end   the owning block ends / has been left;   root.exit.end(surfaced, hasHandler)                       *)
EXTENDS Naturals, Sequences, FiniteSets
MonInit == [snap |-> {}, facstarted |-> FALSE, spawned |-> {}, ended |-> {}, cancelreq |-> {}, raised |-> {}, handled |-> {},
            verdict |-> <<>>, closing |-> FALSE, exempt |-> FALSE, exited |-> FALSE, ok |-> TRUE, why |-> "", hits |-> {}]
Fail(m, w) == [m EXCEPT !.ok = FALSE, !.why = w]
Hit(m, h) == [m EXCEPT !.hits = @ \cup {h}]
Range(q) == {q[i] : i \in DOMAIN q}
Truthy(m, k) == \E i \in DOMAIN m.verdict : m.verdict[i][1] = k /\ m.verdict[i][2]
MonNext(m, e) ==
  IF ~m.ok THEN m ELSE
  CASE e.ev = "reg" -> IF m.facstarted THEN m ELSE [m EXCEPT !.snap = @ \cup {e.id}]
    [] e.ev = "factory.start" -> [m EXCEPT !.facstarted = TRUE]
    [] e.ev = "spawn" -> [Hit(m, "spawn") EXCEPT !.spawned = @ \cup {e.k}]
    [] e.ev = "bg.begin" ->
         IF Range(e.vis) # m.snap THEN Fail(m, "task-context-is-not-the-snapshot-taken-when-the-factory-started")
         ELSE IF ~e.parentok THEN Fail(m, "task-context-does-not-inherit-from-the-factorys-context") ELSE Hit(m, "begin")
    [] e.ev = "handle.cancel" -> [Hit(m, "cancel") EXCEPT !.cancelreq = @ \cup {e.k}]
    [] e.ev = "bg.saw.cancel" -> IF e.k \notin m.cancelreq /\ ~m.exempt THEN Fail(m, "task-cancelled-without-a-request-for-it") ELSE Hit(m, "saw-cancel")
    [] e.ev = "bg.raise" -> [m EXCEPT !.raised = @ \cup {e.k}, !.exempt = @ \/ ~e.hasHandler]
    [] e.ev = "handler" ->
         IF e.k \in m.handled THEN Fail(m, "exception-handler-called-twice-for-one-exception")
         ELSE IF e.k \notin m.raised THEN Fail(m, "exception-handler-called-for-a-task-that-did-not-raise")
         ELSE [Hit(m, IF e.truthy THEN "handler-truthy" ELSE "handler-falsy") EXCEPT !.handled = @ \cup {e.k}, !.verdict = Append(@, <<e.k, e.truthy>>), !.exempt = @ \/ ~e.truthy]
    [] e.ev = "bg.end" -> [m EXCEPT !.ended = @ \cup {e.k}]
    [] e.ev = "wait.returned" -> IF e.k \notin m.ended THEN Fail(m, "wait_finished-returned-before-its-task-ended") ELSE Hit(m, "wait-returned")
    [] e.ev = "q" ->
         IF m.facstarted /\ ~m.exited /\ ~m.exempt /\ Range(e.handles) # (m.spawned \ m.ended) THEN Fail(m, "all_task_handles-is-not-exactly-the-unfinished-tasks")
         ELSE IF \E k \in Range(e.waiters) : k \in m.ended THEN Fail(m, "wait_finished-still-blocked-after-its-task-ended")
         ELSE Hit(m, IF Range(e.handles) # {} THEN "q-live" ELSE "q")
    [] e.ev = "exit.begin" -> [m EXCEPT !.closing = TRUE]
    [] e.ev = "exit.end" ->
         IF ~m.exempt /\ m.spawned # m.ended THEN Fail(m, "owning-block-left-before-its-background-tasks-finished")
         ELSE [Hit(m, "left") EXCEPT !.exited = TRUE]
    [] e.ev = "root.exit.end" ->
         LET must == {k \in m.raised : ~Truthy(m, k)} IN
         IF ~(must \subseteq Range(e.surfaced)) THEN Fail(m, "unhandled-task-exception-vanished")
         ELSE IF \E k \in m.raised : Truthy(m, k) /\ k \in Range(e.surfaced) THEN Fail(m, "exception-propagated-although-the-handler-accepted-it")
         ELSE IF \E k \in m.raised : e.hasHandler /\ k \notin m.handled THEN Fail(m, "exception-handler-not-called")
         ELSE Hit(m, "root-left")
    [] OTHER -> m
=============================================================================
