---------------------------------- MODULE Tf ----------------------------------
(* Task factories (TaskFactory.start_task / start_task_soon / _run_background_task / _run; run_background_task).
   One owning context with a resource added before and one added after the factory was started; a handler kind; up to
   MaxTasks tasks, each with a way of being started (via), a place it is started from (where) and a behaviour.
   Controllable steps: Spawn, Started (start_task with task_status: the function calls started()), SpawnCancel (start_task_soon
   followed at once by handle.cancel()), Finish (the task function returns or raises), Cancel (handle.cancel()), Leave (the
   owning block ends; teardown waits for running tasks). Every step feeds its events and a quiescence event to the C09 monitor. *)
EXTENDS Naturals, Sequences, FiniteSets, TLC, SequencesExt
CONSTANTS MaxTasks
M == INSTANCE P_C09
Vias == {"start_task", "soon", "ts"}
Wheres == {"owner", "nested", "other"}
Behs == {"return", "raise", "slowcancel"}
VARIABLES prog, stage, rt, hist, mon
vars == <<prog, stage, rt, hist, mon>>
Init == /\ prog = [handler |-> "none", waiters |-> FALSE, tasks |-> <<>>] /\ stage = "gen"
        /\ rt = [st |-> <<>>, left |-> FALSE, leaving |-> FALSE, crashed |-> {}, evs |-> <<>>] /\ hist = <<>> /\ mon = M!MonInit
AddTask == /\ stage = "gen" /\ Len(prog.tasks) < MaxTasks
           /\ \E v \in Vias, w \in Wheres, b \in Behs : prog' = [prog EXCEPT !.tasks = Append(@, [via |-> v, where |-> w, beh |-> b])]
           /\ UNCHANGED <<stage, rt, hist, mon>>
Emit(r, e) == [r EXCEPT !.evs = Append(@, e)]
Feed(r) == mon' = LET RECURSIVE F(_, _) F(m, i) == IF i > Len(r.evs) THEN m ELSE F(M!MonNext(m, r.evs[i]), i + 1) IN F(mon, 1)
Live(r) == {k \in DOMAIN r.st : r.st[k] \in {"starting", "run"}}
Quiet(r) == Emit(r, [ev |-> "q", handles |-> SetToSeq(Live(r)), waiters |-> IF prog'.waiters THEN SetToSeq(Live(r)) ELSE <<>>])
HasH == prog.handler # "none"
Start == /\ stage = "gen" /\ Len(prog.tasks) >= 1
         /\ \E h \in {"none", "truthy", "falsy"}, w \in BOOLEAN : prog' = [prog EXCEPT !.handler = h, !.waiters = w]
         /\ rt' = Quiet(Emit(Emit(Emit([rt EXCEPT !.st = [k \in 1..Len(prog.tasks) |-> "new"], !.evs = <<>>], [ev |-> "reg", id |-> 0]), [ev |-> "factory.start"]), [ev |-> "reg", id |-> 1]))
         /\ stage' = "run" /\ hist' = <<>> /\ Feed(rt')
Begin(r, k) == Emit(r, [ev |-> "bg.begin", k |-> k, vis |-> <<0>>, parentok |-> TRUE])
\* the owning block is left once teardown has nothing left to wait for
MaybeLeft(r) == IF r.leaving /\ ~r.left /\ Live(r) = {} THEN Emit(Emit([r EXCEPT !.left = TRUE], [ev |-> "exit.end"]), [ev |-> "root.exit.end", surfaced |-> <<>>, hasHandler |-> prog.handler # "none"]) ELSE r
EndOf(r, k) == LET r1 == Emit([r EXCEPT !.st[k] = "done"], [ev |-> "bg.end", k |-> k]) IN
               IF prog.waiters THEN Emit(r1, [ev |-> "wait.returned", k |-> k]) ELSE r1
Spawn(k) ==
  /\ stage = "run" /\ k \in DOMAIN rt.st /\ rt.st[k] = "new" /\ ~rt.leaving /\ (\A j \in 1..(k - 1) : rt.st[j] # "new") /\ UNCHANGED <<prog, stage>>
  /\ LET r0 == Emit([rt EXCEPT !.evs = <<>>], [ev |-> "spawn", k |-> k]) IN
     rt' = Quiet(Begin([r0 EXCEPT !.st[k] = IF prog.tasks[k].via = "ts" THEN "starting" ELSE "run"], k))
  /\ hist' = Append(hist, [a |-> "spawn", k |-> k]) /\ Feed(rt')
Started(k) ==
  /\ stage = "run" /\ k \in DOMAIN rt.st /\ rt.st[k] = "starting" /\ UNCHANGED <<prog, stage>>
  /\ rt' = Quiet([rt EXCEPT !.st[k] = "run", !.evs = <<>>])
  /\ hist' = Append(hist, [a |-> "started", k |-> k]) /\ Feed(rt')
SpawnCancel(k) ==
  /\ stage = "run" /\ k \in DOMAIN rt.st /\ rt.st[k] = "new" /\ ~rt.leaving /\ prog.tasks[k].via = "soon" /\ (\A j \in 1..(k - 1) : rt.st[j] # "new") /\ UNCHANGED <<prog, stage>>
  /\ LET r0 == Emit(Emit([rt EXCEPT !.evs = <<>>], [ev |-> "spawn", k |-> k]), [ev |-> "handle.cancel", k |-> k])
         r1 == Emit(Begin(r0, k), [ev |-> "bg.saw.cancel", k |-> k]) IN
     rt' = Quiet(MaybeLeft(EndOf(r1, k)))
  /\ hist' = Append(hist, [a |-> "spawncancel", k |-> k]) /\ Feed(rt')
\* an exception that nobody accepts crashes the application: everything else is cancelled, the teardown included
CrashAll(r, k) ==
  LET RECURSIVE CancelRest(_, _)
      CancelRest(rr, S) == IF S = {} THEN rr ELSE LET j == CHOOSE j \in S : \A i \in S : j <= i IN CancelRest(EndOf(Emit(rr, [ev |-> "bg.saw.cancel", k |-> j]), j), S \ {j})
      r1 == CancelRest(r, Live(r))
      r2 == IF r1.leaving THEN r1 ELSE Emit(r1, [ev |-> "exit.begin"]) IN
  Emit(Emit([r2 EXCEPT !.left = TRUE, !.leaving = TRUE], [ev |-> "exit.end"]), [ev |-> "root.exit.end", surfaced |-> <<k>>, hasHandler |-> prog.handler # "none"])
Finish(k) ==
  /\ stage = "run" /\ k \in DOMAIN rt.st /\ rt.st[k] = "run" /\ ~rt.left /\ UNCHANGED <<prog, stage>>
  /\ LET r0 == [rt EXCEPT !.evs = <<>>] IN
     rt' = IF prog.tasks[k].beh # "raise" THEN Quiet(MaybeLeft(EndOf(r0, k)))
           ELSE LET r1 == Emit(r0, [ev |-> "bg.raise", k |-> k, hasHandler |-> prog.handler # "none"])
                    r2 == IF prog.handler = "none" THEN r1 ELSE Emit(r1, [ev |-> "handler", k |-> k, truthy |-> (prog.handler = "truthy")])
                    r3 == EndOf(r2, k) IN
                IF prog.handler = "truthy" THEN Quiet(MaybeLeft(r3)) ELSE Quiet(CrashAll(r3, k))
  /\ hist' = Append(hist, [a |-> "finish", k |-> k]) /\ Feed(rt')
Cancel(k) ==
  /\ stage = "run" /\ k \in DOMAIN rt.st /\ rt.st[k] \in {"run", "starting"} /\ ~rt.left /\ UNCHANGED <<prog, stage>>
  /\ LET r0 == Emit(Emit([rt EXCEPT !.evs = <<>>], [ev |-> "handle.cancel", k |-> k]), [ev |-> "bg.saw.cancel", k |-> k]) IN
     rt' = Quiet(MaybeLeft(EndOf(r0, k)))
  /\ hist' = Append(hist, [a |-> "cancel", k |-> k]) /\ Feed(rt')
Leave ==
  /\ stage = "run" /\ ~rt.leaving /\ (\A k \in DOMAIN rt.st : rt.st[k] # "starting") /\ UNCHANGED <<prog, stage>>
  /\ rt' = Quiet(MaybeLeft(Emit([rt EXCEPT !.leaving = TRUE, !.evs = <<>>], [ev |-> "exit.begin"])))
  /\ hist' = Append(hist, [a |-> "leave", k |-> 0]) /\ Feed(rt')
Next == AddTask \/ Start \/ Leave \/ \E k \in 1..MaxTasks : Spawn(k) \/ Started(k) \/ SpawnCancel(k) \/ Finish(k) \/ Cancel(k)
Terminal == stage = "run" /\ rt.left
MonOk == mon.ok
\* read on the state: the block is left only when no task is running (unless the application is crashing)
WaitsForTasks == (stage = "run" /\ rt.left) => Live(rt) = {}
\* under weak fairness every run ends with the owning block left (teardown does not hang once the tasks end)
Spec == Init /\ [][Next]_vars /\ WF_vars(Next)
Ends == (stage = "run") ~> Terminal
=============================================================================
