---------------------------- MODULE Trace_C08 ----------------------------
(* Batch validation of recorded executions of the service-task family against the monitor P_C08. *)
EXTENDS P_C08, TLC, TLCExt, Json, IOUtils, SequencesExt
Traces == JsonDeserialize(IOEnv.TRACE_FILE)
VARIABLES tid, l, m
Init == tid \in 1..Len(Traces) /\ l = 1 /\ m = MonInit
Next == /\ l <= Len(Traces[tid].events)
        /\ m' = MonNext(m, Traces[tid].events[l])
        /\ l' = l + 1 /\ UNCHANGED tid
Report == (l = Len(Traces[tid].events) + 1) =>
            PrintT(ToJson([end |-> Traces[tid].id, ok |-> m.ok, step |-> l - 1, why |-> m.why, hits |-> SetToSeq(m.hits)]))
=============================================================================
