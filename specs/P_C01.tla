------------------------------- MODULE P_C01 -------------------------------
(* C01 as a monitor: a deterministic fold over the events of one `async with Context()` block.
     reg(cb, pass)                      a teardown callback is registered (any route); pass = registered with pass_exception
     exit.begin(how, exc)               the block ends: how in {"return","exc","base","cancel"}, exc = id of the exception ("none"/"cancel")
     cb.begin(cb, hasarg, arg)          callback cb is invoked (with the argument it received, if any); cb = 0: the callback that came with
                                        a registration that was rejected (add_resource raising ResourceConflict)
     cb.end(cb, raised, exc, cancel)    callback cb (including any awaitable it returned) has finished; callback ids are positive integers; cancel = it re-raised the
                                        backend's cancellation exception
     exit.end(kind, groups, exc, plainexc)   what left the block: kind in {"normal","exc","cancel","cancelgroup","group"};
                                        groups = every exception group found in it, as [members (ids), othersAllCancel]
     closed(v)                          Context.closed after the block                                                          *)
EXTENDS Naturals, Sequences, FiniteSets
MonInit == [stack |-> <<>>, pass |-> <<>>, closing |-> FALSE, blockexc |-> "none", running |-> 0,
            ran |-> {}, raisedR |-> {}, anyCancel |-> FALSE, ended |-> FALSE, ok |-> TRUE, why |-> "", hits |-> {}]
Fail(m, w) == [m EXCEPT !.ok = FALSE, !.why = w]
Hit(m, h) == [m EXCEPT !.hits = @ \cup {h}]
Top(m) == m.stack[Len(m.stack)]
Range(q) == {q[i] : i \in DOMAIN q}
MonNext(m, e) ==
  IF ~m.ok THEN m ELSE
  CASE e.ev = "reg" ->
         IF m.ended THEN Fail(m, "callback-registered-after-the-context-closed")
         ELSE [Hit(m, IF m.closing THEN "reg-during-teardown" ELSE "reg") EXCEPT !.stack = Append(@, e.cb), !.pass = Append(@, e.pass)]
    [] e.ev = "exit.begin" -> [m EXCEPT !.closing = TRUE, !.blockexc = e.exc]
    [] e.ev = "cb.begin" ->
         IF e.cb = 0 THEN Fail(m, "callback-of-a-rejected-registration-ran")
         ELSE IF ~m.closing THEN Fail(m, "callback-ran-before-the-block-ended")
         ELSE IF m.running # 0 THEN Fail(m, "callback-started-while-another-was-still-running")
         ELSE IF e.cb \in m.ran THEN Fail(m, "callback-ran-twice")
         ELSE IF m.stack = <<>> \/ Top(m) # e.cb THEN Fail(m, "not-in-reverse-order-of-registration")
         ELSE IF m.pass[Len(m.pass)] /\ (~e.hasarg \/ e.arg # m.blockexc) THEN Fail(m, "wrong-exception-passed")
         ELSE IF ~m.pass[Len(m.pass)] /\ e.hasarg THEN Fail(m, "argument-passed-to-a-plain-callback")
         ELSE [Hit(m, IF m.pass[Len(m.pass)] THEN "pass" ELSE "plain") EXCEPT !.running = e.cb, !.ran = @ \cup {e.cb},
                        !.stack = SubSeq(@, 1, Len(@) - 1), !.pass = SubSeq(@, 1, Len(@) - 1)]
    [] e.ev = "cb.end" ->
         IF m.running # e.cb THEN Fail(m, "callback-ended-without-having-begun")
         ELSE [Hit(m, IF e.raised THEN "cb-raised" ELSE "cb-ok") EXCEPT !.running = 0,
                        !.raisedR = IF e.raised /\ ~e.cancel THEN @ \cup {e.exc} ELSE @,
                        !.anyCancel = @ \/ (e.raised /\ e.cancel)]
    [] e.ev = "exit.end" ->
         IF m.stack # <<>> THEN Fail(m, "registered-callbacks-not-run")
         ELSE IF m.running # 0 THEN Fail(m, "block-left-while-a-callback-was-running")
         ELSE IF m.raisedR # {} THEN
              (IF e.kind # "group" \/ ~(\E i \in DOMAIN e.groups : m.raisedR \subseteq Range(e.groups[i].members) /\ e.groups[i].othersAllCancel)
               THEN Fail(m, "callback-exceptions-not-raised-together-in-one-group") ELSE [Hit(m, "grouped") EXCEPT !.ended = TRUE])
         ELSE IF m.anyCancel \/ m.blockexc = "cancel" THEN
              (IF e.kind \in {"cancel", "cancelgroup"} THEN [Hit(m, "cancelled") EXCEPT !.ended = TRUE] ELSE Fail(m, "cancellation-outcome-lost"))
         ELSE IF m.blockexc = "none" THEN (IF e.kind = "normal" THEN [Hit(m, "clean") EXCEPT !.ended = TRUE] ELSE Fail(m, "clean-exit-raised"))
         ELSE IF e.plainexc THEN (IF e.kind = "exc" /\ e.exc = m.blockexc THEN [Hit(m, "own-exception") EXCEPT !.ended = TRUE]
                                  ELSE Fail(m, "block-exception-not-raised-as-itself"))
         ELSE [m EXCEPT !.ended = TRUE]
    [] e.ev = "closed" -> IF m.ended /\ ~e.v THEN Fail(m, "context-not-closed-after-the-block") ELSE m
    [] OTHER -> m
=============================================================================
