------------------------------- MODULE P_C15 -------------------------------
(* C15 as a monitor over one run_application call (p = program, carrying the specification's expected outcome p.exp):
     reg(id, late)       a teardown callback is registered on the root context by a component (late: by a teardown callback,
                         while the root context is being torn down)
     td(id)              that callback runs
     stuck               the application is still running long after the ending of the program struck
     outcome(k, code, exc)   run_application returned (k = "return"), raised SystemExit(code) (k = "exit") or raised exc (k = "raise") *)
EXTENDS Naturals, Sequences, FiniteSets
MonInit == [regs |-> <<>>, lates |-> {}, tds |-> <<>>, finished |-> FALSE, ok |-> TRUE, why |-> "", hits |-> {}]
Fail(m, w) == [m EXCEPT !.ok = FALSE, !.why = w]
Hit(m, h) == [m EXCEPT !.hits = @ \cup {h}]
Rev(s) == [i \in 1..Len(s) |-> s[Len(s) + 1 - i]]
Range(q) == {q[i] : i \in DOMAIN q}
MonNext(p, m, e) ==
  IF ~m.ok THEN m ELSE
  CASE e.ev = "reg" -> IF m.finished THEN Fail(m, "registration-after-run_application-finished")
                       ELSE IF e.late THEN [m EXCEPT !.lates = @ \cup {e.id}] ELSE [m EXCEPT !.regs = Append(@, e.id)]
    [] e.ev = "td" ->
         IF m.finished THEN Fail(m, "teardown-callback-ran-after-run_application-finished")
         ELSE IF e.id \in Range(m.tds) THEN Fail(m, "teardown-callback-ran-twice")
         ELSE [m EXCEPT !.tds = Append(@, e.id)]
    [] e.ev = "outcome" ->
         LET m1 == [m EXCEPT !.finished = TRUE] IN
         IF Range(m.tds) # Range(m.regs) \cup m.lates THEN Fail(m1, "not-every-root-teardown-callback-ran-before-run_application-finished")
         ELSE IF SelectSeq(m.tds, LAMBDA x : x \notin m.lates) # Rev(m.regs) THEN Fail(m1, "root-teardown-callbacks-not-in-reverse-order")
         ELSE IF p.exp.k = "any" THEN Hit(m1, "any")
         ELSE IF e.k # p.exp.k THEN Fail(m1, "wrong-kind-of-outcome-expected-" \o p.exp.k \o "-got-" \o e.k)
         ELSE IF e.k = "exit" /\ e.code # p.exp.code THEN Fail(m1, "wrong-exit-status")
         ELSE IF e.k = "raise" /\ e.exc # p.exp.exc THEN Fail(m1, "original-exception-not-propagated")
         ELSE Hit(IF m.lates # {} THEN Hit(m1, "callback-registered-during-teardown-ran") ELSE m1, e.k \o "-" \o p.end.kind)
    [] e.ev = "stuck" -> Fail(m, "run_application-still-running-long-after-its-ending-struck")
    [] OTHER -> m
=============================================================================
