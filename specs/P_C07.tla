------------------------------- MODULE P_C07 -------------------------------
(* C07 as a monitor (p = program: n, par, paths, hp, hs, timeout): failure and timeout during start-up.
     fail(c, phase, exc)   the harness makes component c raise in that phase
     cancelled(c)          code of component c that was suspended observed cancellation
     clock.passed          virtual time passed the timeout
     sc.return / sc.raise(cls, phase, path, ctype, cause)
     reg(id) ctx.exit.begin td(id) ctx.exit.end                                                                           *)
EXTENDS Naturals, Sequences, FiniteSets
MonInit == [begun |-> {}, ended |-> {}, cancelled |-> {}, fail |-> <<>>, nfail |-> 0, clockpassed |-> FALSE, rootdone |-> FALSE,
            done |-> "no", regs |-> <<>>, tdrun |-> <<>>, ctxexit |-> FALSE, ok |-> TRUE, why |-> "", hits |-> {}]
Fail(m, w) == [m EXCEPT !.ok = FALSE, !.why = w]
Hit(m, h) == [m EXCEPT !.hits = @ \cup {h}]
RECURSIVE Anc(_, _)
Anc(p, c) == IF p.par[c] = 0 THEN {} ELSE {p.par[c]} \cup Anc(p, p.par[c])
Rev(s) == [i \in 1..Len(s) |-> s[Len(s) + 1 - i]]
CompEv(e) == e.ev \in {"prepare.begin", "prepare.end", "start.begin", "start.end", "step"}
MonNext(p, m, e) ==
  IF ~m.ok THEN m ELSE
  IF CompEv(e) /\ m.done # "no" THEN Fail(m, "component-activity-after-start_component-finished")
  ELSE
  CASE e.ev \in {"prepare.begin", "start.begin"} ->
         IF e.ev = "start.begin" /\ m.nfail > 0 /\ e.c \in Anc(p, m.fail[1].c) THEN Fail(m, "start-of-an-ancestor-ran-after-the-failure")
         ELSE [m EXCEPT !.begun = @ \cup {<<e.c, e.ev>>}]
    [] e.ev = "prepare.end" -> [m EXCEPT !.ended = @ \cup {<<e.c, "prepare.begin">>}]
    [] e.ev = "start.end" -> [m EXCEPT !.ended = @ \cup {<<e.c, "start.begin">>}, !.rootdone = @ \/ (e.c = 1 /\ ~m.clockpassed)]
    [] e.ev = "cancelled" -> [Hit(m, "cancelled") EXCEPT !.cancelled = @ \cup {e.c}]
    [] e.ev = "fail" -> [Hit(m, "fail-" \o e.phase) EXCEPT !.fail = Append(@, e), !.nfail = @ + 1,
                              !.ended = IF e.phase = "creating" THEN @ ELSE @ \cup {<<e.c, IF e.phase = "preparing" THEN "prepare.begin" ELSE "start.begin">>}]
    [] e.ev = "reg" -> [m EXCEPT !.regs = Append(@, e.id)]
    [] e.ev = "clock.passed" -> [Hit(m, "clock") EXCEPT !.clockpassed = TRUE]
    [] e.ev = "sc.return" ->
         IF m.nfail > 0 THEN Fail(m, "returned-despite-a-failing-component")
         ELSE IF m.clockpassed THEN Fail(m, "returned-although-the-timeout-passed-before-completion")
         ELSE [Hit(m, "returned") EXCEPT !.done = "ret"]
    [] e.ev = "sc.raise" ->
         LET open == {x \in m.begun : x \notin m.ended} IN
         IF \E x \in open : x[1] \notin m.cancelled THEN Fail(m, "component-still-running-when-start_component-raised")
         ELSE IF m.nfail = 1 THEN
              LET f == m.fail[1] IN
              IF e.cls # "ComponentStartError" THEN Fail(m, "not-a-ComponentStartError")
              ELSE IF e.phase # f.phase THEN Fail(m, "ComponentStartError-names-the-wrong-phase")
              ELSE IF e.path # p.paths[f.c] THEN Fail(m, "ComponentStartError-names-the-wrong-path")
              ELSE IF e.ctype # f.c THEN Fail(m, "ComponentStartError-names-the-wrong-class")
              ELSE IF e.cause # f.exc THEN Fail(m, "original-exception-is-not-the-cause")
              ELSE [Hit(m, "raised-" \o f.phase) EXCEPT !.done = "raised"]
         ELSE IF m.nfail = 0 /\ m.rootdone THEN Fail(m, "startup-that-finished-in-time-affected-by-the-timeout")
         ELSE IF m.nfail = 0 /\ m.clockpassed THEN
              (IF e.cls = "TimeoutError" THEN [Hit(m, "timeout") EXCEPT !.done = "raised"] ELSE Fail(m, "timeout-did-not-raise-TimeoutError"))
         ELSE IF m.nfail = 0 THEN Fail(m, "start_component-raised-without-a-failure-or-timeout")
         ELSE [m EXCEPT !.done = "raised"]
    [] e.ev = "stuck" -> IF m.nfail = 0 /\ m.rootdone THEN Fail(m, "start_component-did-not-return-although-the-startup-completed") ELSE m
    [] e.ev = "ctx.exit.begin" -> [m EXCEPT !.ctxexit = TRUE]
    [] e.ev = "td" -> IF ~m.ctxexit THEN Fail(m, "teardown-before-the-surrounding-context-was-left") ELSE [m EXCEPT !.tdrun = Append(@, e.id)]
    [] e.ev = "ctx.exit.end" -> IF m.tdrun # Rev(m.regs) THEN Fail(m, "registrations-made-before-the-abort-not-torn-down-in-reverse-order") ELSE Hit(m, "torn-down")
    [] OTHER -> m
=============================================================================
