---------------------------- MODULE MC_Pipeline ----------------------------
(* Bounded family of `asphalt run` command lines. Every initial state is one command line; Eval computes what the
   specification says must be handed to run_application (or that the command must fail). TLC checks the reading of C16
   as invariants of RunPipeline on the whole family and prints every (command line, expected outcome) pair, which the
   driver replays through the real command (spec -> code).                                                       *)
EXTENDS Config, Json
CONSTANT MaxFiles, MaxSets
S(x) == [t |-> "s", v |-> x]
I(x) == [t |-> "i", v |-> x]
T1 == S("verif_cli_fixture:T1")
T2 == S("verif_cli_fixture:T2")
FilePool == <<
  [max_threads |-> I(3), component |-> D([type |-> T1, a |-> I(1), n |-> D([a |-> I(1)])])],
  [services |-> D([one |-> D([component |-> D([type |-> T1, a |-> I(2)])]),
                   two |-> D([component |-> D([type |-> T2, n |-> D(("b.c" :> I(2)))]), max_threads |-> I(9)])])],
  [services |-> D([default |-> D([component |-> D([type |-> T2])]),
                   one |-> D([component |-> D([type |-> T1, a |-> I(5), n |-> D([a |-> I(5), x |-> NoneV])])])]),
   start_timeout |-> I(4)],
  [component |-> D([a |-> I(7), n |-> D(("b.c" :> I(3)))])],
  [services |-> D([two |-> D([max_threads |-> I(1)])]), max_threads |-> I(5)],
  [services |-> I(5)]
>>
SetPool == <<
  [path |-> <<"component", "a">>, val |-> I(50)],
  [path |-> <<"component", "n", "a">>, val |-> S("str")],
  [path |-> <<"component", "n", "b.c">>, val |-> [t |-> "l", v |-> <<I(1), I(2)>>]],
  [path |-> <<"services", "one", "component", "a">>, val |-> I(9)],
  [path |-> <<"max_threads">>, val |-> I(2)],
  [chars |-> <<"c","o","m","p","o","n","e","n","t",".","n",".","b","\\",".","c">>, val |-> I(8)],
  [path |-> <<"component", "a", "deep">>, val |-> I(1)]
>>
SeqsUpTo(P, lo, n) == UNION {[1..k -> 1..Len(P)] : k \in lo..n}
VARIABLES fs, ss, flag, env, out
vars == <<fs, ss, flag, env, out>>
Files == [i \in DOMAIN fs |-> FilePool[fs[i]]]
Sets == [i \in DOMAIN ss |-> SetPool[ss[i]]]
Init == /\ fs \in SeqsUpTo(FilePool, 1, MaxFiles) /\ ss \in SeqsUpTo(SetPool, 0, MaxSets)
        /\ flag \in {"", "one", "two", "nope"} /\ env \in {"", "two", "default"} /\ out = [kind |-> "pending"]
Eval == /\ out.kind = "pending" /\ out' = RunPipeline(Files, Sets, flag, env) /\ UNCHANGED <<fs, ss, flag, env>>
EvalP == Eval /\ PrintT(ToJson([case |-> [files |-> Files, sets |-> Sets, flag |-> flag, env |-> env], exp |-> out']))
Done == out.kind # "pending"
Launched == out.kind = "launch"
\* ---- the statement, read on the specification --------------------------------------------------------------
Merged == FoldMerge(Empty, Files)
Cfg0 == ApplySets(Merged, Sets)
Services == IF "services" \in DOMAIN Cfg0.cfg /\ IsD(Cfg0.cfg["services"]) THEN Cfg0.cfg["services"].v ELSE Empty
\* which service is selected: --service, else ASPHALT_SERVICE, else the only one, else `default`
Selected == IF flag # "" THEN flag ELSE IF env # "" THEN env
            ELSE IF "component" \in DOMAIN Cfg0.cfg THEN "default"
            ELSE IF Cardinality(DOMAIN Services) = 1 THEN CHOOSE k \in DOMAIN Services : TRUE ELSE "default"
FlagWins == (Launched /\ flag # "") => flag \in DOMAIN Services \/ (flag = "default" /\ "component" \in DOMAIN Cfg0.cfg)
MissingServiceFails == (Done /\ Cfg0.ok /\ IsD(D(Services)) /\ (flag # "" \/ env # "")
                         /\ Selected \notin DOMAIN Services /\ ~(Selected = "default" /\ "component" \in DOMAIN Cfg0.cfg)) => out.kind # "launch"
\* the service section wins over top-level keys, which win over nothing else
ServiceOverTop == Launched => \A k \in DOMAIN out.top :
                     IF Selected \in DOMAIN Services /\ IsD(Services[Selected]) /\ k \in DOMAIN Services[Selected].v
                        /\ ~IsD(Services[Selected].v[k])
                     THEN EqV(out.top[k], Services[Selected].v[k]) ELSE TRUE
\* nothing of the service table or the component section leaks into the options
TopClean == Launched => "services" \notin DOMAIN out.top /\ "component" \notin DOMAIN out.top /\ "type" \notin DOMAIN out.comp
\* a --set on a top-level scalar key is visible unless the selected service overrides that key
SetVisible == Launched => \A i \in DOMAIN Sets :
                 (Len(PathOf(Sets[i])) = 1 /\ (\A j \in DOMAIN Sets : j > i => PathOf(Sets[j]) # PathOf(Sets[i]))
                  /\ ~(Selected \in DOMAIN Services /\ IsD(Services[Selected]) /\ PathOf(Sets[i])[1] \in DOMAIN Services[Selected].v))
                 => EqV(out.top[PathOf(Sets[i])[1]], Sets[i].val)
BadOverrideFails == (Done /\ ~Cfg0.ok) => out.kind = "error"
=============================================================================
