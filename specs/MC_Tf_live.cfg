SPECIFICATION Spec
CONSTANTS
  MaxTasks = 1
PROPERTY Ends
CHECK_DEADLOCK FALSE
