INIT TInit
NEXT TNext
INVARIANT Report
CHECK_DEADLOCK FALSE
CONSTANTS
  MaxCtx = 24
  MaxRegs = 1000000
  Names <- SuiteNames
  Types <- SuiteTypes
  Life = TRUE
  Flaws = TRUE
  Inj = FALSE
