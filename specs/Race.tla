-------------------------------- MODULE Race --------------------------------
(* Concurrent lookups through an asynchronous resource factory (Context.get_resource around the await of the factory):
   a root context 1 holding an async factory for the types `ts`, a child context 2 created afterwards (it inherits the
   factory), and N tasks each asking one of the two contexts for one of the factory's types. The factory parks at a gate, so
   the two halves of a generating lookup are separate steps. Intended behaviour (as repaired): a lookup that finds a
   generation of the same factory in progress in its context waits for it and returns its result; if that generation fails
   the waiters try again.  The controllable steps (Begin, Release) are recorded in hist and drive the real code.   *)
EXTENDS Naturals, Sequences, FiniteSets, TLC
CONSTANTS N, MaxFails
Tasks == 1..N
NoV == <<"none", 0, 0>>
ErrV == <<"error", 0, 0>>
Ctxs == {1, 2}
VARIABLES prog,    \* [two |-> BOOLEAN (factory has two types), ctx |-> [Tasks -> Ctxs], typ |-> [Tasks -> 1..2]]
          stage, pc, pend, obj, got, calls, fails, hist, mon
vars == <<prog, stage, pc, pend, obj, got, calls, fails, hist, mon>>
M == INSTANCE P_Race
Init == /\ prog \in [two : BOOLEAN, ctx : [Tasks -> Ctxs], typ : [Tasks -> 1..2]]
        /\ (\A k \in Tasks : prog.typ[k] = 2 => prog.two)
        /\ stage = "run" /\ pc = [k \in Tasks |-> "idle"] /\ pend = [c \in Ctxs |-> 0] /\ obj = [c \in Ctxs |-> NoV]
        /\ got = [k \in Tasks |-> NoV] /\ calls = [c \in Ctxs |-> 0] /\ fails = 0 /\ hist = <<>> /\ mon = M!MonInit
Step(m, e) == M!MonNext(m, e)
\* a task looks the resource up: it is there / a generation is in progress (wait) / it starts the generation itself
Lookup(k, m) ==
  LET c == prog.ctx[k] IN
  IF obj[c] # NoV THEN [pc |-> "done", pend |-> pend[c], got |-> obj[c], calls |-> calls[c], m |-> Step(m, [ev |-> "end", k |-> k, c |-> c, r |-> "obj", v |-> obj[c]])]
  ELSE IF pend[c] # 0 THEN [pc |-> "waiting", pend |-> pend[c], got |-> NoV, calls |-> calls[c], m |-> m]
  ELSE [pc |-> "generating", pend |-> k, got |-> NoV, calls |-> calls[c] + 1, m |-> Step(m, [ev |-> "call", k |-> k, c |-> c])]
Begin(k) ==
  /\ pc[k] = "idle"
  /\ LET c == prog.ctx[k]
         r == Lookup(k, Step(mon, [ev |-> "begin", k |-> k, c |-> c])) IN
     /\ pc' = [pc EXCEPT ![k] = r.pc] /\ pend' = [pend EXCEPT ![c] = r.pend] /\ got' = [got EXCEPT ![k] = r.got]
     /\ calls' = [calls EXCEPT ![c] = r.calls] /\ mon' = r.m
  /\ hist' = Append(hist, [a |-> "begin", k |-> k]) /\ UNCHANGED <<prog, stage, obj, fails>>
\* the parked factory call of context c returns: the product is stored, the generating lookup and all waiters return it
ReleaseOk(c) ==
  /\ pend[c] # 0
  /\ LET g == pend[c]
         o == <<"g", c, calls[c]>>
         ws == {k \in Tasks : pc[k] = "waiting" /\ prog.ctx[k] = c}
         m1 == Step(Step(Step(mon, [ev |-> "release", c |-> c, ok |-> TRUE]), [ev |-> "ev", c |-> c]), [ev |-> "end", k |-> g, c |-> c, r |-> "obj", v |-> o]) IN
     /\ obj' = [obj EXCEPT ![c] = o] /\ pend' = [pend EXCEPT ![c] = 0]
     /\ pc' = [k \in Tasks |-> IF k = g \/ k \in ws THEN "done" ELSE pc[k]]
     /\ got' = [k \in Tasks |-> IF k = g \/ k \in ws THEN o ELSE got[k]]
     /\ mon' = LET RECURSIVE F(_, _)
                   F(m, S) == IF S = {} THEN m ELSE LET k == CHOOSE k \in S : TRUE IN F(Step(m, [ev |-> "end", k |-> k, c |-> c, r |-> "obj", v |-> o]), S \ {k})
               IN F(m1, ws)
  /\ hist' = Append(hist, [a |-> "release", c |-> c, ok |-> TRUE, cancel |-> FALSE]) /\ UNCHANGED <<prog, stage, calls, fails>>
\* the parked factory call raises: the generating lookup fails, one of the waiters (any) starts a new generation
\* (how = "cancel": instead, the task of the generating lookup is cancelled while the factory awaits - the same for everybody else)
ReleaseFail(c, how) ==
  /\ pend[c] # 0 /\ fails < MaxFails
  /\ LET g == pend[c]
         ws == {k \in Tasks : pc[k] = "waiting" /\ prog.ctx[k] = c}
         m1 == Step(Step(mon, [ev |-> "release", c |-> c, ok |-> FALSE]), [ev |-> "end", k |-> g, c |-> c, r |-> "error", v |-> 0]) IN
     IF ws = {} THEN /\ pend' = [pend EXCEPT ![c] = 0] /\ pc' = [pc EXCEPT ![g] = "done"] /\ got' = [got EXCEPT ![g] = ErrV]
                     /\ mon' = m1 /\ UNCHANGED calls
     ELSE \E w \in ws :
            /\ pend' = [pend EXCEPT ![c] = w] /\ calls' = [calls EXCEPT ![c] = @ + 1]
            /\ pc' = [pc EXCEPT ![g] = "done", ![w] = "generating"] /\ got' = [got EXCEPT ![g] = ErrV]
            /\ mon' = Step(m1, [ev |-> "call", k |-> w, c |-> c])
  /\ fails' = fails + 1
  /\ hist' = Append(hist, [a |-> "release", c |-> c, ok |-> FALSE, cancel |-> (how = "cancel")]) /\ UNCHANGED <<prog, stage, obj>>
Next == \/ \E k \in Tasks : Begin(k)
        \/ \E c \in Ctxs : ReleaseOk(c) \/ ReleaseFail(c, "raise") \/ ReleaseFail(c, "cancel")
Terminal == \A k \in Tasks : pc[k] = "done"
\* ---- the design satisfies the monitor, and the statement read directly on the state ---------------------------------
MonOk == mon.ok
OncePerContext == \A c \in Ctxs : obj[c] # NoV => calls[c] <= 1 + fails
SameInContext == \A j, k \in Tasks : (prog.ctx[j] = prog.ctx[k] /\ got[j] \notin {NoV, ErrV} /\ got[k] \notin {NoV, ErrV}) => got[j] = got[k]
OwnPerContext == \A j, k \in Tasks : (prog.ctx[j] # prog.ctx[k] /\ got[j] \notin {NoV, ErrV} /\ got[k] \notin {NoV, ErrV}) => got[j] # got[k]
NoLostWaiter == \A k \in Tasks : pc[k] = "waiting" => pend[prog.ctx[k]] # 0
Spec == Init /\ [][Next]_vars /\ WF_vars(Next)
AllFinish == <>Terminal
=============================================================================
