INIT Init
NEXT EvalP
INVARIANT OnePerPath
INVARIANT HardCodedPresent
INVARIANT ConfigOnlyPresent
INVARIANT ExternalWins
INVARIANT HardSurvives
INVARIANT TypeFromAlias
INVARIANT DefaultName
INVARIANT NoMetaInKwargs
CHECK_DEADLOCK FALSE
