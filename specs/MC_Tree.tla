------------------------------ MODULE MC_Tree ------------------------------
(* Bounded family of component hierarchies with hard-coded add_component() defaults and external configurations.
   Every initial state is one (class table, external configuration); Eval computes the tree the specification demands.
   TLC checks the reading of C14 as invariants of BuildTree on the family and prints (scenario, expected tree), which
   the driver replays through the real start_component (spec -> code).                                           *)
EXTENDS Config, Json
S(x) == [t |-> "s", v |-> x]
I(x) == [t |-> "i", v |-> x]
C(x) == [t |-> "c", v |-> x]
N(k, n) == [kind |-> k, name |-> n]
Names == ("K1" :> N("K1", "")) @@ ("K2" :> N("K2", "")) @@ ("K3" :> N("K3", "")) @@ ("K2/x" :> N("K2", "x")) @@ ("K1/y" :> N("K1", "y"))
         @@ ("K3/z" :> N("K3", "z")) @@ ("K9/w" :> N("K9", "w")) @@ ("plain" :> N("plain", ""))
         @@ ("verif_c14_fixture:K1" :> N("K1", "")) @@ ("verif_c14_fixture:K3" :> N("K3", ""))
H(a, ty, cfg) == [alias |-> a, type |-> ty, cfg |-> cfg]
ClassTables == <<
  [Root |-> <<H("K1", NoneV, [a |-> I(1)]), H("K2/x", NoneV, [n |-> D([a |-> I(1), k |-> I(1)])])>>,
   K1 |-> <<>>, K2 |-> <<H("K1/y", NoneV, [a |-> I(5)]), H("plain", C("K3"), [a |-> I(6)])>>, K3 |-> <<>>],
  [Root |-> <<>>, K1 |-> <<>>, K2 |-> <<>>, K3 |-> <<>>],
  [Root |-> <<H("K2/x", S("K2"), Empty), H("K1", S("verif_c14_fixture:K1"), [n |-> D([a |-> D(("b.c" :> I(1)))])])>>,
   K1 |-> <<H("K3/z", NoneV, Empty)>>, K2 |-> <<>>, K3 |-> <<>>]
>>
Absent == [absent |-> TRUE]
RootKw == {Empty, [r |-> I(1)]}
OptK1 == {Absent, D([a |-> I(2)]), D([n |-> D([a |-> I(2)])]), D([type |-> C("K2")]), D([n |-> D([a |-> D([z |-> I(0)])])])}
OptK2x == {Absent, D([n |-> D(("b.c" :> I(3)))]), D([components |-> D(("K1/y" :> D([a |-> I(9)])))]),
           D([components |-> D(("K3/z" :> NoneV))]), D([n |-> I(0)])}
OptK3 == {Absent, NoneV, D([a |-> I(1)]), D([type |-> S("verif_c14_fixture:K1")])}
OptK9 == {Absent, D([type |-> S("K1")]), D([type |-> C("K3"), n |-> D(Empty)])}
VARIABLES ct, rk, o1, o2, o3, o9, out, done
vars == <<ct, rk, o1, o2, o3, o9, out, done>>
Put(f, k, o) == IF o = Absent THEN f ELSE With(f, k, o)
Comps == Put(Put(Put(Put(Empty, "K1", o1), "K2/x", o2), "K3", o3), "K9/w", o9)
Cfg == IF Comps = Empty THEN rk ELSE With(rk, "components", D(Comps))
Classes == ClassTables[ct]
Init == /\ ct \in DOMAIN ClassTables /\ rk \in RootKw /\ o1 \in OptK1 /\ o2 \in OptK2x /\ o3 \in OptK3 /\ o9 \in OptK9
        /\ out = Empty /\ done = FALSE
Eval == /\ ~done /\ done' = TRUE /\ out' = BuildTree(Classes, Names, "Root", Cfg) /\ UNCHANGED <<ct, rk, o1, o2, o3, o9>>
EvalP == Eval /\ PrintT(ToJson([scn |-> [classes |-> Classes, names |-> Names, root |-> "Root", cfg |-> D(Cfg)],
                                 exp |-> [p \in DOMAIN out' |-> [cls |-> out'[p].cls, drn |-> out'[p].drn]]]))
Done == done
Node(p) == out[p]
Paths == DOMAIN out
Hard == Classes["Root"]
Ext == Comps
\* ---- the statement, read on the specification ---------------------------------------------------------------
OnePerPath == Done => \A p \in Paths : out[p].path = p
HardCodedPresent == Done => \A i \in DOMAIN Hard : Hard[i].alias \in Paths
ConfigOnlyPresent == Done => \A a \in DOMAIN Ext : a \in Paths
\* an external scalar for a key overrides the hard-coded value; hard-coded keys not mentioned externally survive
ExternalWins == Done => \A a \in DOMAIN Ext : IsD(Ext[a]) =>
                   \A k \in DOMAIN Ext[a].v \ {"type", "components"} : ~IsD(Ext[a].v[k]) => EqV(Node(a).kwargs[k], Ext[a].v[k])
HardSurvives == Done => \A i \in DOMAIN Hard : LET a == Hard[i].alias IN
                   \A k \in DOMAIN Hard[i].cfg : (a \notin DOMAIN Ext \/ (IsD(Ext[a]) /\ k \notin DOMAIN Ext[a].v)) => EqV(Node(a).kwargs[k], Hard[i].cfg[k])
\* type defaults to the alias (its part before "/"); the part after "/" is the default resource name
TypeFromAlias == Done => \A a \in DOMAIN Ext : (~IsD(Ext[a]) \/ "type" \notin DOMAIN Ext[a].v) /\ (\A i \in DOMAIN Hard : Hard[i].alias # a)
                            => Node(a).cls = Names[a].kind
DefaultName == Done => \A p \in Paths : p \in DOMAIN Names => out[p].drn = (IF Names[p].name = "" THEN "default" ELSE Names[p].name)
NoMetaInKwargs == Done => \A p \in Paths : "type" \notin DOMAIN out[p].kwargs /\ "components" \notin DOMAIN out[p].kwargs
=============================================================================
