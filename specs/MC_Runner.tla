------------------------------ MODULE MC_Runner ------------------------------
EXTENDS Runner, Json
Dump == done => PrintT(ToJson([prog |-> prog, outcome |-> Outcome(prog)]))
=============================================================================
