INIT InitP
NEXT NextP
VIEW View
CONSTANTS
  Chans = {"1a"}
  ChanSeqs <- MC_ChanSeqsOne
  Subs = {1}
  MaxEv = 3
  AbandonSubs = {}
  QMaxes = {0, 1}
  Bursts = TRUE
CHECK_DEADLOCK FALSE
