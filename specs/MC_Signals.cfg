INIT InitP
NEXT NextP
VIEW View
CONSTANTS
  Chans = {"1a", "1b", "2a"}
  ChanSeqs <- MC_ChanSeqsQuick
  Subs = {1, 2}
  MaxEv = 2
  AbandonSubs = {1}
  QMaxes = {0, 1}
CHECK_DEADLOCK FALSE
