#!/bin/sh
# Offline setup: nothing to download or compile. SANY-parses every TLA+ module and byte-compiles the harness in memory.
set -e
cd "$(dirname "$0")"
/venv/bin/python - <<'PY'
import sys, pathlib, py_compile
sys.path.insert(0, ".")
sys.dont_write_bytecode = True
from harness import tlc
bad = 0
for p in sorted(pathlib.Path("specs").rglob("*.tla")):
    mod = str(p.relative_to("specs"))[:-4]
    if not tlc.sany(mod):
        print("SANY failed:", p); bad += 1
for p in sorted(pathlib.Path("harness").rglob("*.py")):
    try:
        compile(p.read_text(), str(p), "exec")
    except SyntaxError as e:
        print("syntax error:", p, e); bad += 1
print("setup ok" if not bad else f"setup failed: {bad}")
sys.exit(1 if bad else 0)
PY
