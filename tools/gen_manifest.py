#!/usr/bin/env python3
"""Regenerate MANIFEST.json from the table below (kept next to the checks so the two stay in step)."""
import json
import pathlib

ROOT = pathlib.Path(__file__).resolve().parent.parent
ALL = [json.loads(l)["id"] for l in open(ROOT / "properties.jsonl")]

CLAIMS = {
    "C17": dict(
        technique="TLA+ operator Config.Merge as oracle: TLC checks the statement's lemmas on all pairs of a bounded family (MC_Merge); "
                  "every real merge_config call on that family and on seeded deep inputs is validated by TLC against the operator (Trace_C17)",
        text="Model checking of the specification's Merge (all pairs of depth<=2 dictionaries, lemmas = the statement) plus TLC validation of "
             "every recorded call of the real function (result, purity of both arguments, fresh result) on the exhaustive family and on random "
             "deeper inputs. A pure function: the spec is a transcription and TLC enumerates/validates inputs; bounded, not a proof.",
        design_ref="DESIGN.md §5 C17, §4.5",
        note="Trusted: TLC, the tagged JSON conversion (harness/tagged.py), Python dict semantics for str keys. Inputs outside the enumerated "
             "family are sampled only."),
    "C16": dict(
        technique="TLA+ operator Config.RunPipeline as oracle: TLC enumerates a bounded family of command lines, checks the statement as "
                  "invariants (MC_Pipeline) and exports expected outcomes that are replayed through the real `asphalt run`; random command lines "
                  "are run through the real command and validated by TLC against the operator (Trace_C16)",
        text="Model checking of the pipeline specification (file merge order, --set application with escaped-dot split, service ladder, "
             "service-over-top-level merge) on ~29k enumerated command lines, all replayed through the real click command, plus all override "
             "keys of length<=5 over {a,b,.,\\} and thousands of seeded random command lines with !Env/!TextFile/!BinaryFile leaves; every "
             "observed hand-off to run_application (or failure) is compared by TLC with RunPipeline.",
        design_ref="DESIGN.md §5 C16, §4.5",
        note="Trusted: TLC, PyYAML, click's option parsing, the observation seam (asphalt.core._cli.run_application replaced by a recorder, as "
             "the repository's tests do). The corner 'top-level component + services.default' is unspecified and skipped."),
    "C14": dict(
        technique="TLA+ operator Config.BuildTree as oracle: TLC enumerates class tables x external configurations, checks the statement as "
                  "invariants (MC_Tree) and exports expected trees replayed through the real start_component; random deeper scenarios are "
                  "executed and validated by TLC (Trace_C14), including a second start from the same configuration object",
        text="Model checking of the layering specification (hard-coded add_component defaults deep-merged under external `components`, "
             "config-only children, type defaulting to the alias, kind/name aliases, default-name remapping only in start()) on 1,800 "
             "enumerated scenarios plus thousands of random ones; for each, TLC compares the observed tree (path, class, constructor kwargs), "
             "the names under which prepare()/start() additions are visible, the configuration object after the call and the tree of a second "
             "start with BuildTree.",
        design_ref="DESIGN.md §5 C14, §4.5",
        note="Trusted: TLC, harness fixtures (verif_c14_fixture, a real dist-info directory providing entry points), component path observed via "
             "current_context().path. Hard-coded child overridden by None and a root config containing 'type' are unspecified, not generated."),
    "C02": dict(
        technique="exhaustive replay of the TLC state graph of specs/Ctx.tla (every state, every transition, every outcome that changes "
                  "nothing) against real Context objects, full projection of every context compared after each step; design properties "
                  "ScopedDown / OnlyActedOn checked by TLC on the complete step relation",
        text="TLC proves on the bounded Ctx model (<=3 contexts, <=3 registrations) that nothing flows up or sideways and that children hold "
             "exactly the creation-time snapshot; every transition of the bounded graphs is then executed against real contexts and after "
             "each step get_resources of every type on every context, every lookup API's result and the closed flags are compared with the "
             "model. Differences in a context other than the acted-on one, in a freshly created child, or between lookup paths are C02.",
        design_ref="DESIGN.md §5 C02, §4.1", note="Trusted: TLC, the replay driver (harness/ctxreplay.py), Python object identity. Bounds: 2-3 contexts, 1-3 registrations, 2 types, 1-2 names; sequential histories (races are covered by the race family)."),
    "C03": dict(
        technique="exhaustive replay of the TLC state graph of specs/Ctx.tla against real Context objects; masks: result class of adds "
                  "(ResourceConflict, failing flawed adds), unchanged projection / no event / no callback after a failing add, stability of "
                  "handed-out objects; design properties Stable / FailedChangesNothing checked by TLC",
        text="Every (state, operation) pair of the bounded Ctx graphs is executed on real contexts: conflicting adds on the first or second "
             "type, invalid name / None / invalid type / invalid teardown callback in every state; after each failing call the projection, "
             "the events of all contexts and - at exit - the callbacks run must be unchanged; every lookup result must equal the object the "
             "model says the pair resolves to.",
        design_ref="DESIGN.md §5 C03, §4.1", note="Trusted as C02. Exception classes for invalid arguments are not fixed by the statement (any ValueError/TypeError accepted)."),
    "C04": dict(
        technique="exhaustive replay of the TLC state graph of specs/Ctx.tla (sync/async factories, one/two types, both lookup APIs, child "
                  "creation before/after generation) with factory call counting; design properties GenNotShared / GenIsOwn checked by TLC",
        text="For every generating lookup of the bounded graphs the real code must call the factory exactly once, return the canonical "
             "generated object, cache it under the factory's free keys only, keep it out of the parent and of later children, and raise "
             "AsyncResourceError (registering nothing, running no factory body) for sync lookups of async factories of four callable shapes.",
        design_ref="DESIGN.md §5 C04, §4.1", note="Trusted as C02; plus the race family (specs/Race.tla + monitor P_Race): all programs of 3 tasks over 2 contexts x all schedules of begin/release steps on asyncio and trio."),
    "C18": dict(
        technique="exhaustive replay of the TLC state graph of specs/Ctx.tla with a resource_added listener on every context; the events "
                  "received during each step are compared with the step's predicted events (design property EventsRight checked by TLC)",
        text="Each step of the bounded graphs predicts the exact multiset of ResourceEvents (context, types, name, is_factory, source, topic) "
             "that listeners on all contexts must receive: one for a successful add / factory registration / first generation, none for failing "
             "calls and plain lookups, none on any other context.",
        design_ref="DESIGN.md §5 C18, §4.1", note="Trusted as C02. For a generation that could not take all factory keys both 'all factory types' and 'registered types' are accepted."),
    "C13": dict(
        technique="exhaustive replay of the TLC state graph of specs/Ctx.tla with Life=TRUE (creation, entry, start and end of teardown as "
                  "separate steps; blocks ending by return / exception / cancellation) against real contexts owned by worker tasks; every "
                  "operation is tried in every life-cycle state; design property Forward checked by TLC",
        text="The complete operation x life-cycle-state matrix of the bounded model (never entered, open, inside teardown - parked by a probe "
             "callback -, closed after clean / failing / cancelled exits, teardown that raised, parent left with an open child) is executed "
             "on real contexts: RuntimeError exactly where the model says with nothing changed, allowed operations succeeding during teardown "
             "(add_resource_factory excepted), re-entry refused, the closed flag after every step, the open-child error on clean exits.",
        design_ref="DESIGN.md §5 C13, §4.1", note="Trusted: TLC, the life-cycle executor (worker task per context, probe callback to hold the closing state). For a block that already ends with an exception or cancellation while a child is open, either that outcome or the stack-corruption error is accepted (the statement does not decide)."),
    "C19": dict(
        technique="exhaustive replay of the TLC state graph of specs/Ctx.tla with the Inject action (= the explicit lookup observed through an "
                  "@inject-decorated function called from a task whose current context is the acted-on context); signature grammar cycled; "
                  "differences attributed to C19 only when the real explicit lookup disagrees; decoration-time rows validated by TLC",
        text="Every (state, inject call) pair of the bounded graphs - sync and async functions, optional and non-optional markers, both names, "
             "static / factory-made / inherited / missing resources, open and closed contexts - is executed with signatures cycling through "
             "keyword-only, positional, method and two-marker layouts and T, Optional[T], T | None, Union and (nested) string forward-reference "
             "annotations; results, object identity, side effects and pass-through arguments must match the explicit lookup.",
        design_ref="DESIGN.md §5 C19, §4.1", note="Trusted: TLC, the replay driver, the fixture module without `from __future__ import annotations`. Signature shapes are cycled, not enumerated per state."),
    "C01": dict(
        technique="TLA+ spec Teardown.tla composed with the monitor P_C01: TLC enumerates all programs of the bounded family and proves the "
                  "design satisfies the monitor (plus AllRan and termination under fairness); each program is executed on asyncio/trio and the "
                  "recorded trace is evaluated by TLC against the same monitor (Trace_C01)",
        text="Model checking of the teardown loop (pop / callback finishes, registration during teardown, cancellation while an async callback "
             "is suspended) over every program of <=2 callbacks of all kinds and routes and 3-callback programs of a thinner alphabet, all block "
             "endings, root and nested contexts; every program is then run against the real Context and the monitor checks exactly-once, LIFO, "
             "no overlap, the argument of pass_exception callbacks, that raising callbacks never stop the rest, the single exception group, "
             "closed afterwards and the block's own outcome.",
        design_ref="DESIGN.md §5 C01, Appendix A.2", note="Trusted: TLC, the gate-driven driver with exact quiescence and virtual time. Cancellation exceptions are exempt from the grouped clause (backends differ); quick runs each program on one backend, alternating."),
    "C12": dict(
        technique="TLA+ spec Cur.tla composed with the monitor P_C12: TLC explores every configuration of the bounded model and proves the "
                  "design satisfies the monitor; every transition (with a path to it) is executed with one real task per specification task and "
                  "the recorded trace is evaluated by TLC against the monitor (Trace_C12)",
        text="Model checking of per-task context stacks (<=3 tasks, nesting <=2-3, implicit and explicit parents, blocks left by return, "
             "exception, cancellation or a raising teardown, tasks spawned from inside blocks, start_component probes); each of the ~4k "
             "transitions of the bounded graph is driven through real tasks on asyncio and trio, current_context() of every task is sampled "
             "after every step and compared by the monitor; Context.parent of every new context is checked against the creator's current context.",
        design_ref="DESIGN.md §5 C12", note="Trusted: TLC, the worker-task driver (commands over memory streams, exact quiescence). How earlier blocks on a path ended is randomised."),
    "C10": dict(
        technique="exhaustive replay of the TLC state graph of specs/Signals.tla (subscribe / wait_event / dispatch / consume / leave) against "
                  "real signals with one task per subscriber on asyncio and trio; delivered sequences, consume results, dispatch results and "
                  "SignalQueueFull counts compared after every step; design invariants checked by TLC on a larger bound",
        text="TLC proves on the Signals model (3 channels of 2 instances, 2 subscribers, <=3 events, queue sizes 0-2) in-order, duplicate-free, "
             "filter- and channel-respecting delivery, bounded queues, exact subscriber registration, wait_event returning one event, and "
             "dispatch isolation; every transition of the bounded graph (~270k) is executed against real streams: what each subscriber has "
             "yielded (event number and channel from source/topic), blocking vs yielding consumers, per-subscriber overflow with its warning, "
             "hand-off to a waiting receiver at queue size 0, leaving/cancelled subscribers, dispatch never raising.",
        design_ref="DESIGN.md §5 C10, §4.4", note="Trusted: TLC, the graph walker (harness/graphwalk.py), one owner task per stream, exact quiescence. Event.time is type-checked only; a stream is never given the same signal twice."),
    "C11": dict(
        technique="the Signals graph replay with the cross-channel mask (delivery or warning on a channel that was not dispatched on, TypeError "
                  "for a wrong event class) plus static rows validated by TLC (Trace_C11): bound-signal identity matrix in several access "
                  "orders incl. an inheriting instance and a copied instance, attribute name / event class, UnboundSignal for every class-level "
                  "use, weak binding",
        text="Channel independence is decided on every transition of the bounded Signals graph (3 channels: two attributes of one instance, the "
             "same attribute on another instance using inherited signals): a dispatch may only change subscribers of its own channel. The "
             "identity matrix (same object iff same instance and attribute), topic and event class, the seven class-level uses that must raise "
             "UnboundSignal and garbage-collectability of the owner are recorded from the real code and compared by TLC with the specification's table.",
        design_ref="DESIGN.md §5 C11, §4.4", note="Trusted as C10; gc.collect() for the weak-binding rows. Instances with value-based __eq__/__hash__ are not explored."),
    "C05": dict(
        technique="TLA+ spec Startup.tla (controllable gated steps + settle-to-quiescence) composed with the monitor P_C05: TLC enumerates every "
                  "program of the bounded family with every release order, proves the design satisfies the monitor and state invariants, and "
                  "exports (program, schedule) pairs that drive real component trees on asyncio/trio; traces validated by TLC (Trace_C05)",
        text="Model checking of start-up order over all trees of <=3 components with/without prepare()/start() and one-step scripts that publish "
             "or wait for resources (incl. back-to-back publications), all gate-release orders; the executed pairs are checked by the monitor for: "
             "whole hierarchy constructed first, prepare before any child, siblings started concurrently (quiescence snapshots), start only after "
             "every descendant, each method exactly once (also when inherited), return of the root instance only after the root's start(), "
             "completion of every program the specification can complete, visibility and reverse-order teardown in the surrounding context.",
        design_ref="DESIGN.md §5 C05, §4.3, Appendix A.1", note="Trusted: TLC, the gate driver with exact quiescence and virtual time. Gate-level schedules are exhaustive in TLC, sampled in quick execution; checkpoint-level interleavings come from bursts and seeded schedulers."),
    "C06": dict(
        technique="Startup.tla with the lookup/publication alphabet composed with the monitor P_C06 (TLC: design satisfies the monitor and "
                  "NoLostWakeup on every program x schedule); sampled (program, schedule) pairs executed on asyncio/trio with bursts, traces "
                  "validated by TLC (Trace_C06)",
        text="Waiters, optional and non-startup lookups of (A, m) against publications that match (resource, resource right after an unrelated "
             "one, sync/async factory, two-type resource, default name remapped through a kind/m alias) or do not (other name, other type), in "
             "every relative order incl. the same burst; the monitor checks at every quiescent point that nobody waits for something published, "
             "that nobody is released or failed without a matching publication, that the returned object is the published one (also when it is "
             "falsy) or the factory's product, and that optional / non-startup lookups never wait.",
        design_ref="DESIGN.md §5 C06, §4.3", note="Trusted as C05. Publication names are read back from the surrounding context. Quick executes a seeded sample of the TLC-enumerated pairs."),
    "C07": dict(
        technique="Startup.tla with faults and timeout composed with the monitor P_C07 (TLC: design satisfies the monitor on every tree x "
                  "failing (component, phase) x timeout position x schedule); pairs executed on asyncio/trio under virtual time, traces validated "
                  "by TLC (Trace_C07)",
        text="Every tree of <=3 (thorough 4) components, every failing component and phase (constructor, prepare, start; the injected exception "
             "is sometimes itself a ComponentStartError), the timeout striking at every progress state: ComponentStartError with phase, dotted "
             "path, class and the original exception as cause; no ancestor start(); every suspended component cancelled before start_component "
             "raises; TimeoutError on timeout; a start-up that finished in time unaffected; no component activity afterwards although all gates "
             "are opened and the clock advanced; registrations torn down in reverse order with the surrounding context.",
        design_ref="DESIGN.md §5 C07, §4.3, Appendix A.3", note="Trusted as C05. Exact ties between completion and timeout are excluded; two simultaneous failures are outside the statement."),
    "C08": dict(
        technique="TLA+ spec Svc.tla (registrations, finalizers, LIFO unwind to the next wait) composed with the monitor P_C08: TLC enumerates "
                  "programs x schedules and proves the design satisfies the monitor and NoTaskLeft; pairs executed on asyncio/trio under virtual "
                  "time, traces validated by TLC (Trace_C08)",
        text="All sequences of <=4 registrations (resources with teardown callbacks, <=2 service tasks) x 11 (teardown action, behaviour) pairs "
             "(cancel / None / sync or async callable that succeeds or raises; runs forever, ends when signalled, needs time, ends by itself, "
             "crashes) x root/nested owner x block ending x orders of tasks ending/crashing before or while the finalizer waits. The monitor "
             "checks: snapshot context, action per teardown_action exactly once with fallback to cancellation, no earlier-registered callback "
             "before the task AND its own context have finished, nothing running after the block, an escaping exception leaving the root.",
        design_ref="DESIGN.md §5 C08, §4.2, Appendix A.4", note="Trusted: TLC, the gate driver, virtual time. A crash cancels the teardown itself, then only 'does not vanish' is demanded."),
    "C09": dict(
        technique="TLA+ spec Tf.tla composed with the monitor P_C09: TLC enumerates programs of <=2 tasks x all schedules of spawn / started() / "
                  "spawn+cancel / finish / cancel / leave and proves the design satisfies the monitor and WaitsForTasks; sampled pairs executed on "
                  "asyncio/trio, traces validated by TLC (Trace_C09)",
        text="Tasks started with start_task, start_task_soon or start_task with task_status, from the owner, a nested context with an extra "
             "resource, or a task outside every context; returning, raising or needing time after cancellation; handler none/truthy/falsy; with "
             "concurrent wait_finished callers. The monitor checks at every quiescent point that all_task_handles() is exactly the unfinished "
             "tasks, that task contexts are the factory-start snapshot with the factory context as parent, that cancel() ends only its task, "
             "that wait_finished returns iff the task ended, that teardown waits without cancelling, handler called once, swallowed iff truthy.",
        design_ref="DESIGN.md §5 C09, §4.2, Appendix A.5", note="Trusted as C08. Quick executes a seeded sample of the TLC-enumerated pairs. Cancelling a task before it calls task_status.started() makes start_task raise in the caller (anyio); that is tolerated."),
    "C15": dict(
        technique="TLA+ spec Runner.tla (outcome table per ending on a fixed virtual timeline) with the monitor P_C15: TLC enumerates every "
                  "program of the family and checks the table against the statement; every program is executed through the real "
                  "run_application in-process under virtual time on asyncio and trio, traces validated by TLC (Trace_C15)",
        text="All 150 programs: 1-3 components x CLI/plain root x one ending (10 classes of run() result incl. falsy non-ints, run() raising, "
             "failure of each component in each start-up phase, stalling component with timeout, SIGINT/SIGTERM at four moments during and one "
             "after start-up, service-task crash at three moments). The monitor checks that every teardown callback registered on the root "
             "context ran exactly once, in reverse order, before run_application returned or raised, and that the outcome is the documented one.",
        design_ref="DESIGN.md §5 C15, §4.6", note="Trusted: TLC, virtual time through backend_options (loop_factory / MockClock), signal.raise_signal from a service task. A signal or crash during a CLI component's run(), and the outcome of a crash during start-up, are not specified."),
}

import subprocess
HOOK_COMMITS = subprocess.run(["git", "-C", "/repo", "log", "--reverse", "--format=%H", "--grep=^verif: optional tracing"], capture_output=True, text=True).stdout.split()
PENDING_REASON = "check not built yet in this build session; planned (DESIGN.md §5)"


RECORDED = ("; plus trace validation of recorded executions of the real code (the repository's own test suite and scenario programs run with the "
            "ASPHALT_VERIF_HOOKS=trace hook): every recorded context operation is replayed as the Ctx.tla action by TLC (specs/Trace_CtxSuite.tla) "
            "and results, events, the tables of all contexts, the current context per task and what component contexts delegate are compared")
EXTRA = {
    "C01": RECORDED, "C02": RECORDED, "C03": RECORDED, "C04": RECORDED + "; race family Race.tla incl. cancellation of the generating lookup", "C06": RECORDED,
    "C08": RECORDED, "C12": RECORDED, "C13": RECORDED, "C18": RECORDED,
    "C14": RECORDED + "; plus the operators of specs/Plugins.tla (resolve_reference, PluginContainer.resolve/create_object) as oracle for naming a type",
    "C10": "; a second bounded graph with bursts of dispatches (receiver in transit until the burst settles); static delivery rows for copied instances",
    "C11": "; a second bounded graph with bursts of dispatches; static rows (identity over subscription cycles, address reuse, name-mangled signals, Context signals over the life cycle)",
    "C19": "; the Race.tla family executed through one shared decorated coroutine function and the Startup.tla look-up family through decorated functions inside components, each pair also with explicit lookups (differential); differential rows for factories that raise",
}


def main():
    checks = []
    for pid in ALL:
        if pid not in CLAIMS:
            continue
        c = CLAIMS[pid]
        checks.append({
            "property_id": pid,
            "quick_cmd": f"./check {pid} --tier quick",
            "thorough_cmd": f"./check {pid} --tier thorough",
            "evidence_file": f"/verif/evidence/{pid}.json",
            "replay_cmd_template": f"./check {pid} --replay {{path}}",
            "engine": "tlc",
            "level_claimed": {"category": "model_checking", "text": c["text"], "design_ref": c["design_ref"]},
            "level_note": c["note"],
            "technique": c["technique"] + EXTRA.get(pid, ""),
        })
    man = {
        "version": 1,
        "setup_cmd": "./setup.sh",
        "hooks": {
            "guard": "ASPHALT_VERIF_HOOKS",
            "enable": "add-only hooks in src/asphalt/core/_verif.py, active only when ASPHALT_VERIF_HOOKS=trace at import time: (1) Context.add_teardown_callback wraps callbacks so that registration/start/end are appended to asphalt.core._verif.TRACE (C01 traces the repository's own test suite with it); (2) asphalt.core.__init__ calls _verif.install(), which wraps the public Context operations and Signal.dispatch from the outside so that each call records arguments, outcome, dispatched ResourceEvents and all contexts' tables (C02 C03 C04 C13 C18 validate the recorded test suite and harness/scenarios.py against Ctx.tla with specs/Trace_CtxSuite.tla); everything else is observed through the public API; checks import /repo/src directly",
            "baseline_off_cmd": "cd /repo && /venv/bin/python -m pytest -ra -q -p no:cacheprovider --timeout=900 --continue-on-collection-errors",
            "source_commits": HOOK_COMMITS,
            "add_only": True,
        },
        "engines": [{"name": "tlc", "path": "/opt/veriftools/tla/tla2tools.jar", "serves_properties": sorted(CLAIMS),
                     "kind_free_text": "TLC 1.8 explicit-state model checker: model checking of specs/*.tla, generation of behaviours that drive "
                                       "the real code, and batch validation of recorded implementation traces against TLA+ monitors"}],
        "checks": checks,
        "not_applicable": [{"property_id": p, "reason": NA.get(p, PENDING_REASON)} for p in ALL if p not in CLAIMS],
        "notes": "See DESIGN.md. ./check <id> --tier quick|thorough; exit 0 held, 1 violation (VIOLATION line), 2 machinery failure.",
    }
    (ROOT / "MANIFEST.json").write_text(json.dumps(man, indent=1) + "\n")
    try:
        import jsonschema
        jsonschema.validate(man, json.load(open("/root/.vp/MANIFEST.schema.json")))
        print("MANIFEST.json valid;", len(checks), "checks")
    except ImportError:
        print("MANIFEST.json written (jsonschema not available to validate)")


NA = {}

if __name__ == "__main__":
    main()
