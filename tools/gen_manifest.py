#!/usr/bin/env python3
"""Regenerate MANIFEST.json from the table below (kept next to the checks so the two stay in step)."""
import json
import pathlib

ROOT = pathlib.Path(__file__).resolve().parent.parent
ALL = [json.loads(l)["id"] for l in open(ROOT / "properties.jsonl")]

CLAIMS = {
    "C17": dict(
        technique="TLA+ operator Config.Merge as oracle: TLC checks the statement's lemmas on all pairs of a bounded family (MC_Merge); "
                  "every real merge_config call on that family and on seeded deep inputs is validated by TLC against the operator (Trace_C17)",
        text="Model checking of the specification's Merge (all pairs of depth<=2 dictionaries, lemmas = the statement) plus TLC validation of "
             "every recorded call of the real function (result, purity of both arguments, fresh result) on the exhaustive family and on random "
             "deeper inputs. A pure function: the spec is a transcription and TLC enumerates/validates inputs; bounded, not a proof.",
        design_ref="DESIGN.md §5 C17, §4.5",
        note="Trusted: TLC, the tagged JSON conversion (harness/tagged.py), Python dict semantics for str keys. Inputs outside the enumerated "
             "family are sampled only."),
}

PENDING_REASON = "check not built yet in this build session; planned (DESIGN.md §5)"


def main():
    checks = []
    for pid in ALL:
        if pid not in CLAIMS:
            continue
        c = CLAIMS[pid]
        checks.append({
            "property_id": pid,
            "quick_cmd": f"./check {pid} --tier quick",
            "thorough_cmd": f"./check {pid} --tier thorough",
            "evidence_file": f"/verif/evidence/{pid}.json",
            "replay_cmd_template": f"./check {pid} --replay {{path}}",
            "engine": "tlc",
            "level_claimed": {"category": "model_checking", "text": c["text"], "design_ref": c["design_ref"]},
            "level_note": c["note"],
            "technique": c["technique"],
        })
    man = {
        "version": 1,
        "setup_cmd": "./setup.sh",
        "hooks": {
            "guard": "ASPHALT_VERIF_HOOKS",
            "enable": "no source hooks exist: all instrumentation lives in /verif and uses asphalt's public API; checks import /repo/src directly",
            "baseline_off_cmd": "cd /repo && /venv/bin/python -m pytest -ra -q -p no:cacheprovider --timeout=900 --continue-on-collection-errors",
            "source_commits": [],
            "add_only": True,
        },
        "engines": [{"name": "tlc", "path": "/opt/veriftools/tla/tla2tools.jar", "serves_properties": sorted(CLAIMS),
                     "kind_free_text": "TLC 1.8 explicit-state model checker: model checking of specs/*.tla, generation of behaviours that drive "
                                       "the real code, and batch validation of recorded implementation traces against TLA+ monitors"}],
        "checks": checks,
        "not_applicable": [{"property_id": p, "reason": NA.get(p, PENDING_REASON)} for p in ALL if p not in CLAIMS],
        "notes": "See DESIGN.md. ./check <id> --tier quick|thorough; exit 0 held, 1 violation (VIOLATION line), 2 machinery failure.",
    }
    (ROOT / "MANIFEST.json").write_text(json.dumps(man, indent=1) + "\n")
    try:
        import jsonschema
        jsonschema.validate(man, json.load(open("/root/.vp/MANIFEST.schema.json")))
        print("MANIFEST.json valid;", len(checks), "checks")
    except ImportError:
        print("MANIFEST.json written (jsonschema not available to validate)")


NA = {}

if __name__ == "__main__":
    main()
