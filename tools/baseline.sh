#!/bin/sh
# run the repository's test suite with the hooks guard off; expected: 287 passed, 4 failed (the 4 always-failing CLI tests)
cd /repo && env -u ASPHALT_VERIF_HOOKS /venv/bin/python -m pytest -q -p no:cacheprovider --timeout=900 --continue-on-collection-errors 2>&1 | tail -7
