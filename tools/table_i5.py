#!/usr/bin/env python3
"""tools/table_i5.py -- print the per-property table of DESIGN I.5 from the evidence files of the last quick runs."""
import json
import pathlib

ROOT = pathlib.Path(__file__).resolve().parent.parent
print("| id | TLC states (summed over its runs) | transitions | executions / traces of real code | evaluations | distinct non-trivial | wall (s) |")
print("|---|---|---|---|---|---|---|")
for f in sorted((ROOT / "evidence").glob("C*.json")):
    e = json.load(open(f))
    c = e["coverage"]
    print(f"| {e['property_id']} | {c['states']:,} | {c['transitions']:,} | {c['traces_validated_against_impl']:,} | {c['evaluations']:,} | {c['distinct_nontrivial']:,} | {e.get('wall_s', 0):.0f} |")
