#!/bin/sh
# run every cat_<cNN>_* mutant against the check of property CNN; prints one line per mutant
cd /verif
for m in mutants/cat_*.diff; do
  p=$(basename $m | sed -E 's/cat_c([0-9]+)_.*/C\1/')
  r=$(tools/mutant.sh $m $p 2>&1 | grep -E "clause:|violations=|MACHINERY" | head -3 | cut -c1-160 | tr '\n' '|')
  echo "$(basename $m) -> $p : $r"
done
