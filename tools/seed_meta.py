#!/usr/bin/env python3
"""tools/seed_meta.py <Cxx_M> <needs> -- write seeded/<id>/meta.json (what it breaks, what it needs, what was run)."""
import json, sys, pathlib
sid, needs = sys.argv[1], sys.argv[2]
d = pathlib.Path("/verif/seeded") / sid
prop = sid.split("_")[0]
meta = {"property": prop, "breaks": prop, "needs_to_manifest": needs,
        "confirmed_by": "tools/seed_verify.sh: demo exits 0 on the clean worktree, non-zero with the patch; test suite with the patch: 4 failed (pre-existing), 287 passed",
        "origin": "independent sub-agent given only the property text and a scratch worktree"}
(d / "meta.json").write_text(json.dumps(meta, indent=1) + "\n")
