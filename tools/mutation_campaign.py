#!/venv/bin/python
"""Mutation campaign: small syntactic changes to asphalt's source, filtered by the repository's own tests, then run against the
checks of the properties anchored in the changed file. Reports which surviving mutants no check reports (blind spots or
equivalent mutants). Works on scratch copies only (VERIF_REPO); /repo is never touched.

usage: tools/mutation_campaign.py [--files _context.py,...] [--limit N] [--seed S] [--out FILE] [--jobs J]"""
import argparse
import ast
import copy
import json
import os
import pathlib
import random
import shutil
import subprocess
import sys
import tempfile
import time

VERIF = pathlib.Path(__file__).resolve().parent.parent
REPO = pathlib.Path("/repo")
CORE = "src/asphalt/core"
CHECKS = {
    "_utils.py": ["C17", "C14", "C16"],
    "_cli.py": ["C16"],
    "_event.py": ["C10", "C11", "C06"],
    "_context.py": ["C01", "C02", "C03", "C04", "C13", "C18", "C19", "C12", "C08"],
    "_component.py": ["C05", "C06", "C07", "C14", "C19"],
    "_concurrent.py": ["C08", "C09"],
    "_runner.py": ["C15"],
    "_exceptions.py": ["C07"],
}
CMP = {ast.Eq: ast.NotEq, ast.NotEq: ast.Eq, ast.Is: ast.IsNot, ast.IsNot: ast.Is, ast.In: ast.NotIn, ast.NotIn: ast.In,
       ast.Lt: ast.LtE, ast.LtE: ast.Lt, ast.Gt: ast.GtE, ast.GtE: ast.Gt}


class Mutator(ast.NodeTransformer):
    """applies exactly the k-th applicable mutation"""

    def __init__(self, target):
        self.target, self.count, self.desc = target, 0, None

    def hit(self, desc, node):
        self.count += 1
        if self.count - 1 == self.target:
            self.desc = f"{desc} @ line {getattr(node, 'lineno', '?')}"
            return True
        return False

    def visit_Compare(self, node):
        self.generic_visit(node)
        if len(node.ops) == 1 and type(node.ops[0]) in CMP and self.hit(f"{type(node.ops[0]).__name__}->{CMP[type(node.ops[0])].__name__}", node):
            node.ops = [CMP[type(node.ops[0])]()]
        return node

    def visit_BoolOp(self, node):
        self.generic_visit(node)
        if self.hit("and<->or", node):
            node.op = ast.Or() if isinstance(node.op, ast.And) else ast.And()
        return node

    def visit_UnaryOp(self, node):
        self.generic_visit(node)
        if isinstance(node.op, ast.Not) and self.hit("drop not", node):
            return node.operand
        return node

    def visit_Constant(self, node):
        if isinstance(node.value, bool) and self.hit(f"{node.value}->{not node.value}", node):
            return ast.copy_location(ast.Constant(not node.value), node)
        if isinstance(node.value, int) and not isinstance(node.value, bool) and node.value in (0, 1, 127, 50, 20, 10) and self.hit(f"{node.value}->{node.value + 1}", node):
            return ast.copy_location(ast.Constant(node.value + 1), node)
        return node

    def _stmt(self, node, kind):
        if self.hit(f"delete {kind}", node):
            return ast.copy_location(ast.Pass(), node)
        return node

    def visit_Expr(self, node):
        self.generic_visit(node)
        if isinstance(node.value, ast.Constant):       # docstrings
            return node
        return self._stmt(node, "expression statement")

    def visit_Assign(self, node):
        self.generic_visit(node)
        if all(isinstance(t, (ast.Attribute, ast.Subscript)) for t in node.targets):
            return self._stmt(node, "attribute/item assignment")
        return node

    def visit_Raise(self, node):
        self.generic_visit(node)
        return self._stmt(node, "raise")

    def visit_Return(self, node):
        self.generic_visit(node)
        if node.value is not None and not isinstance(node.value, ast.Constant) and self.hit("return None", node):
            node.value = ast.Constant(None)
        return node

    def visit_If(self, node):
        self.generic_visit(node)
        if self.hit("negate if", node):
            node.test = ast.UnaryOp(ast.Not(), node.test)
        return node

    def visit_Call(self, node):
        self.generic_visit(node)
        if len(node.args) == 2 and not node.keywords and isinstance(node.func, ast.Name) and node.func.id in ("merge_config", "isinstance") and self.hit("swap args", node):
            node.args = [node.args[1], node.args[0]]
        if isinstance(node.func, ast.Attribute) and node.func.attr == "pop" and not node.args and self.hit("pop()->pop(0)", node):
            node.args = [ast.Constant(0)]
        return node


def count_sites(src):
    m = Mutator(-1)
    m.visit(ast.parse(src))
    return m.count


def make_mutant(src, k):
    m = Mutator(k)
    tree = m.visit(ast.parse(src))
    ast.fix_missing_locations(tree)
    return ast.unparse(tree), m.desc


def tests_pass(scratch):
    p = subprocess.run(["/venv/bin/python", "-m", "pytest", "-q", "-p", "no:cacheprovider", "-x", "--timeout=120", "tests",
                        "--deselect", "tests/test_cli.py::test_run_bad_override", "--deselect", "tests/test_cli.py::test_run_missing_root_component_config",
                        "--deselect", "tests/test_cli.py::test_run_missing_root_component_type", "--deselect", "tests/test_cli.py::test_run_bad_path"],
                       cwd=str(REPO), env=dict(os.environ, PYTHONPATH=f"{scratch}/src", PYTHONDONTWRITEBYTECODE="1"), capture_output=True, text=True, timeout=900)
    return p.returncode == 0


def run_check(scratch, prop):
    p = subprocess.run([str(VERIF / "check"), prop], env=dict(os.environ, VERIF_REPO=str(scratch), PYTHONDONTWRITEBYTECODE="1"), capture_output=True, text=True, timeout=3000)
    clauses = [l.strip()[:160] for l in p.stdout.splitlines() if "clause:" in l]
    return p.returncode, clauses[:3]


def main():
    ap = argparse.ArgumentParser()
    ap.add_argument("--files", default=",".join(CHECKS))
    ap.add_argument("--limit", type=int, default=60)
    ap.add_argument("--seed", type=int, default=1)
    ap.add_argument("--out", default=str(VERIF / "mutation_report.json"))
    args = ap.parse_args()
    rnd = random.Random(args.seed)
    sites = []
    for f in args.files.split(","):
        src = (REPO / CORE / f).read_text()
        sites += [(f, k) for k in range(count_sites(src))]
    rnd.shuffle(sites)
    report = {"sites_total": len(sites), "mutants": []}
    done = 0
    for f, k in sites:
        if done >= args.limit:
            break
        src = (REPO / CORE / f).read_text()
        try:
            new, desc = make_mutant(src, k)
        except Exception as e:  # noqa: BLE001
            continue
        if new == ast.unparse(ast.parse(src)):
            continue
        scratch = pathlib.Path(tempfile.mkdtemp(prefix="mutc.", dir="/tmp"))
        try:
            shutil.copytree(REPO / "src", scratch / "src", ignore=shutil.ignore_patterns("__pycache__"))
            (scratch / CORE / f).write_text(new)
            t0 = time.time()
            try:
                survived = tests_pass(scratch)
            except subprocess.TimeoutExpired:
                survived = False
            rec = {"file": f, "site": k, "what": desc, "survives_tests": survived}
            if survived:
                done += 1
                rec["checks"] = {}
                for prop in CHECKS[f]:
                    try:
                        rc, clauses = run_check(scratch, prop)
                    except subprocess.TimeoutExpired:
                        rc, clauses = 2, ["timeout"]
                    rec["checks"][prop] = {"rc": rc, "clauses": clauses}
                    if rc == 1:
                        break                      # reported: no need to run the remaining checks
                rec["reported"] = any(v["rc"] == 1 for v in rec["checks"].values())
                rec["wall_s"] = round(time.time() - t0, 1)
                print(json.dumps(rec), flush=True)
            report["mutants"].append(rec)
            pathlib.Path(args.out).write_text(json.dumps(report, indent=1))
        finally:
            shutil.rmtree(scratch, ignore_errors=True)
    surv = [m for m in report["mutants"] if m["survives_tests"]]
    print(f"generated {len(report['mutants'])}, survived the test suite {len(surv)}, reported by a check {sum(1 for m in surv if m['reported'])}, "
          f"unreported {sum(1 for m in surv if not m['reported'])}")


if __name__ == "__main__":
    main()
