#!/usr/bin/env python3
"""tools/mkmutant.py <name> <file under src/asphalt/core> <<< "old text\n=====\nnew text"   -> mutants/<name>.diff"""
import pathlib, subprocess, sys, tempfile, shutil
name, fname = sys.argv[1], sys.argv[2]
old, new = sys.stdin.read().split("\n=====\n")
new = new.rstrip("\n") + "\n" if old.endswith("\n") else new.rstrip("\n")
src = pathlib.Path("/repo/src/asphalt/core") / fname
s = src.read_text()
assert s.count(old) == 1, f"old text occurs {s.count(old)} times"
d = pathlib.Path(tempfile.mkdtemp())
try:
    for side, text in (("a", s), ("b", s.replace(old, new))):
        p = d / side / "src/asphalt/core"
        p.mkdir(parents=True)
        (p / fname).write_text(text)
    out = subprocess.run(["diff", "-u", f"a/src/asphalt/core/{fname}", f"b/src/asphalt/core/{fname}"], cwd=d, capture_output=True, text=True).stdout
    pathlib.Path(f"/verif/mutants/{name}.diff").write_text(out)
    print("written", name, len(out.splitlines()), "lines")
finally:
    shutil.rmtree(d)
