#!/bin/sh
# tools/mutant.sh <patch.diff> <Cxx> [<Cxx> ...] : run checks against a scratch copy of /repo with the patch applied.
# The scratch copy lives outside /repo and /verif and is removed afterwards. Evidence files are not touched.
set -u
patch="$(readlink -f "$1")"; shift
scratch="$(mktemp -d /tmp/mut.XXXXXX)"
trap 'rm -rf "$scratch"' EXIT
rsync -a --exclude .git --exclude __pycache__ /repo/src /repo/pyproject.toml "$scratch"/ 
( cd "$scratch" && patch -p1 -s < "$patch" ) || { echo "patch failed"; exit 2; }
rc=0
for p in "$@"; do
  VERIF_REPO="$scratch" PYTHONDONTWRITEBYTECODE=1 /verif/check "$p" ${TIER:+--tier $TIER} | grep -E "VIOLATION|KNOWN-FINDING|clause:|violations=|MACHINERY" | cut -c1-400 | head -${LINES_MAX:-12}
done
