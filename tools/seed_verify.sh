#!/bin/sh
# tools/seed_verify.sh <Cxx> <A|B> [label] : confirm a sub-agent's mutant in its scratch worktree, then keep it under seeded/
p=$1; m=$2; label=${3:-$2}; wt=${WT:-/tmp/wt}/$p; s=$wt/_seed
git -C $wt checkout -- src
cd $wt
PYTHONPATH=$wt/src /venv/bin/python $s/${m}_demo.py >/dev/null 2>&1; clean=$?
git apply $s/$m.diff || { echo "patch does not apply"; exit 2; }
tests=$(PYTHONPATH=$wt/src /venv/bin/python -m pytest -q -p no:cacheprovider tests 2>&1 | tail -1)
PYTHONPATH=$wt/src /venv/bin/python $s/${m}_demo.py >/dev/null 2>&1; mut=$?
git -C $wt checkout -- src
echo "$p/$m demo_clean=$clean demo_mutant=$mut tests: $tests"
case "$tests" in *"4 failed, 287 passed"*) ok=1;; *) ok=0;; esac
if [ $clean -eq 0 ] && [ $mut -ne 0 ] && [ $ok -eq 1 ]; then
  d=/verif/seeded/${p}_$label; mkdir -p $d; cp $s/$m.diff $d/patch.diff; cp $s/${m}_demo.py $d/demo.py
  echo "confirmed -> $d"
else echo "NOT confirmed"; fi
